// Global allocator of the harness binaries: blocks shaped like the buffers
// of the runtime's flat queue (power-of-two size >= 1024, alignment <= 8) are
// placed at a chosen residue modulo 128, so that the alignment padding an
// over-aligned closure needs in a *new* buffer is explored deterministically
// instead of being left to malloc's habits (FlatQueue.tla's constant Bases).
// Everything else goes straight to the system allocator.

mod resalloc {
    use std::alloc::{GlobalAlloc, Layout, System};
    use std::sync::atomic::{AtomicUsize, Ordering};

    pub struct ResAlloc;

    const NTAB: usize = 8;
    static RES_N: AtomicUsize = AtomicUsize::new(0);
    static RES_IDX: AtomicUsize = AtomicUsize::new(0);
    #[allow(clippy::declare_interior_mutable_const)]
    const Z: AtomicUsize = AtomicUsize::new(0);
    static RES_TAB: [AtomicUsize; NTAB] = [Z; NTAB];

    /// Residues (multiples of 8 below 128) handed out in turn to the next queue-shaped blocks
    pub fn set_residues(rs: &[usize]) {
        let n = rs.len().min(NTAB);
        for (i, r) in rs.iter().take(n).enumerate() {
            RES_TAB[i].store((r & !7) % 128, Ordering::SeqCst);
        }
        RES_IDX.store(0, Ordering::SeqCst);
        RES_N.store(n, Ordering::SeqCst);
    }

    #[inline]
    fn special(l: &Layout) -> bool {
        l.size() >= 1024 && l.size().is_power_of_two() && l.align() <= 8
    }

    unsafe impl GlobalAlloc for ResAlloc {
        unsafe fn alloc(&self, l: Layout) -> *mut u8 {
            if !special(&l) {
                return System.alloc(l);
            }
            let n = RES_N.load(Ordering::SeqCst);
            let r = if n == 0 {
                0
            } else {
                RES_TAB[RES_IDX.fetch_add(1, Ordering::SeqCst) % n].load(Ordering::SeqCst)
            };
            let big = Layout::from_size_align_unchecked(l.size() + 256, 128);
            let base = System.alloc(big);
            if base.is_null() {
                return base;
            }
            let p = base.add(128 + r);
            // the block's real start is kept in the word before the user pointer
            (p.sub(8) as *mut usize).write(base as usize);
            p
        }

        unsafe fn dealloc(&self, p: *mut u8, l: Layout) {
            if !special(&l) {
                return System.dealloc(p, l);
            }
            let base = (p.sub(8) as *const usize).read() as *mut u8;
            System.dealloc(base, Layout::from_size_align_unchecked(l.size() + 256, 128));
        }
    }
}

#[cfg(not(feature = "no-resalloc"))]
#[global_allocator]
static GLOBAL: resalloc::ResAlloc = resalloc::ResAlloc;

#[allow(dead_code)]
fn set_alloc_residues(v: &serde_json::Value) {
    let rs: Vec<usize> = v
        .as_array()
        .map(|a| a.iter().filter_map(|x| x.as_u64()).map(|x| x as usize).collect())
        .unwrap_or_default();
    resalloc::set_residues(&rs);
}
