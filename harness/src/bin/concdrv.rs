//! concdrv: runs the real inter-thread code of stakker (Waker, Channel,
//! PipedThread) under a deterministic scheduler.  Real OS threads are used,
//! but every instrumented operation (atomic RMW, mutex lock, condvar wait /
//! notify, thread begin / end, every script step) first reports to the
//! scheduler, which lets exactly one thread proceed at a time, following a
//! given schedule (sequence of thread ids) and a seeded fallback policy.
//!
//! usage: concdrv <cases.ndjson> [--from N]      (trace on stdout)
//!
//! case: {"case":name,"kind":"waker"|"channel"|"piped","props":[..],
//!        "wakers":[slab index...], "threads":[[op...]...], "main":[op...],
//!        "schedule":[tid...], "seed":n, "fallback":"rr"|"rand"}
//! Exit status 4 after a deadlock / step-budget overrun / panic (trace is
//! flushed first; restart with --from <next>).

use serde_json::Value;
use stakker::sync::{Channel, ChannelGuard, PipedLink, PipedThread, Waker};
use stakker::verif_std::{set_probe, Probe};
use stakker::*;
use std::cell::Cell;
use std::collections::HashMap;
use std::io::Write;
use std::sync::atomic::{AtomicBool, AtomicUsize, Ordering};
use std::sync::{Arc, Condvar, Mutex};
use std::time::Instant;

// ------------------------------------------------------------ scheduler

#[derive(Clone, Debug, PartialEq)]
enum Want {
    Run,
    Step,
    Begin,
    Lock(usize),
    CvWait(usize, usize, bool),
    Join,
    // the event loop is blocked until the poll-waker fires (or nobody else is left to fire it)
    WaitNotified,
    Done,
}

struct St {
    cur: usize,
    th: Vec<Want>,
    sched: Vec<usize>,
    pos: usize,
    rng: u64,
    rand_fallback: bool,
    fine: bool, // releasing a mutex is a scheduling point too (others run while it is still held)
    owner: HashMap<usize, usize>,
    trace: Vec<String>,
    steps: usize,
    max_steps: usize,
    locs: HashMap<usize, String>,
    taken: Vec<usize>,
    case_idx: usize,
    armed: bool,
    // PCT-style fallback: thread priorities + priority-change points
    pct: bool,
    prio: Vec<i64>,
    change: Vec<usize>,
    picks: usize,
    low: i64,
}

struct Sched {
    st: Mutex<St>,
    cv: Condvar,
}

thread_local! {
    static TID: Cell<usize> = const { Cell::new(0) };
}

fn ord_name(o: Ordering) -> &'static str {
    match o {
        Ordering::Relaxed => "Relaxed",
        Ordering::Release => "Release",
        Ordering::Acquire => "Acquire",
        Ordering::AcqRel => "AcqRel",
        Ordering::SeqCst => "SeqCst",
        _ => "Other",
    }
}

impl St {
    fn enabled(&self, t: usize) -> bool {
        match &self.th[t] {
            Want::Step | Want::Begin => true,
            Want::Lock(m) => !self.owner.contains_key(m),
            Want::CvWait(_, m, notified) => *notified && !self.owner.contains_key(m),
            Want::Join => self
                .th
                .iter()
                .enumerate()
                .all(|(i, w)| i == t || *w == Want::Done),
            Want::WaitNotified => {
                // wakes when notified, or (timeout) when no other thread can make a step
                NOTIFIED.load(Ordering::SeqCst)
                    || (0..self.th.len()).all(|i| i == t || self.th[i] == Want::WaitNotified || !self.enabled(i))
            }
            Want::Run | Want::Done => false,
        }
    }

    fn loc(&mut self, prefix: &str, addr: usize) -> String {
        if let Some(n) = self.locs.get(&addr) {
            return n.clone();
        }
        let n = format!("{}{}", prefix, self.locs.len() + 1);
        self.locs.insert(addr, n.clone());
        n
    }

    // Choose the next thread to run; None = nobody can run
    fn pick(&mut self) -> Option<usize> {
        let en: Vec<usize> = (0..self.th.len()).filter(|t| self.enabled(*t)).collect();
        if en.is_empty() {
            return None;
        }
        while self.armed && self.pos < self.sched.len() {
            let t = self.sched[self.pos];
            self.pos += 1;
            if en.contains(&t) {
                return Some(t);
            }
        }
        if self.pct && self.armed {
            // highest priority enabled thread runs; at a change point the
            // thread that would run is demoted below everybody else
            while self.prio.len() < self.th.len() {
                self.rng ^= self.rng << 13;
                self.rng ^= self.rng >> 7;
                self.rng ^= self.rng << 17;
                self.prio.push((self.rng % 1000) as i64 + 1);
            }
            self.picks += 1;
            let mut best = *en.iter().max_by_key(|t| self.prio[**t]).unwrap();
            if self.change.contains(&self.picks) {
                self.low -= 1;
                self.prio[best] = self.low;
                best = *en.iter().max_by_key(|t| self.prio[**t]).unwrap();
            }
            return Some(best);
        }
        if self.rand_fallback {
            self.rng ^= self.rng << 13;
            self.rng ^= self.rng >> 7;
            self.rng ^= self.rng << 17;
            Some(en[(self.rng % en.len() as u64) as usize])
        } else {
            // round-robin starting after the current thread
            let n = self.th.len();
            for k in 1..=n {
                let t = (self.cur + k) % n;
                if en.contains(&t) {
                    return Some(t);
                }
            }
            None
        }
    }
}

impl Sched {
    fn new() -> Arc<Sched> {
        Arc::new(Sched {
            st: Mutex::new(St {
                cur: 0,
                th: vec![Want::Run],
                sched: vec![],
                pos: 0,
                rng: 1,
                rand_fallback: false,
                fine: false,
                owner: HashMap::new(),
                trace: vec![],
                steps: 0,
                max_steps: 20000,
                locs: HashMap::new(),
                taken: vec![],
                case_idx: 0,
                armed: false,
                pct: false,
                prio: vec![],
                change: vec![],
                picks: 0,
                low: 0,
            }),
            cv: Condvar::new(),
        })
    }

    fn me() -> usize {
        TID.with(|t| t.get())
    }

    fn log(&self, s: String) {
        self.st.lock().unwrap().trace.push(s);
    }

    fn hi(&self, s: String) {
        let me = Self::me();
        self.log(format!(r#"{{"t":{},{}}}"#, me, s));
    }

    fn stuck(&self, st: &mut St, why: &str) -> ! {
        let wants: Vec<String> = st.th.iter().map(|w| format!("{:?}", w)).collect();
        st.trace.push(format!(
            r#"{{"t":-1,"e":"stuck","why":"{}","wants":"{}"}}"#,
            why,
            wants.join(" ").replace('"', "'")
        ));
        st.trace.push(r#"{"t":-1,"e":"end"}"#.to_string());
        flush_trace(st);
        println!("{{\"e\":\"restart\",\"next\":{}}}", st.case_idx + 1);
        let _ = std::io::stdout().flush();
        std::process::exit(4);
    }

    // The calling thread stops at a scheduling point wanting `want`
    fn yield_want(&self, want: Want) {
        let me = Self::me();
        let mut st = self.st.lock().unwrap();
        st.th[me] = want;
        match st.pick() {
            None => self.stuck(&mut st, "deadlock"),
            Some(next) => {
                st.cur = next;
                st.taken.push(next);
            }
        }
        self.cv.notify_all();
        while st.cur != me {
            st = self.cv.wait(st).unwrap();
        }
        // scheduled: take what was wanted
        match st.th[me].clone() {
            Want::Lock(m) => {
                st.owner.insert(m, me);
            }
            Want::CvWait(_, m, _) => {
                st.owner.insert(m, me);
            }
            _ => {}
        }
        st.th[me] = Want::Run;
        st.steps += 1;
        if st.steps > st.max_steps {
            self.stuck(&mut st, "step budget exceeded");
        }
    }

    fn new_thread(&self) -> usize {
        let mut st = self.st.lock().unwrap();
        st.th.push(Want::Begin);
        st.th.len() - 1
    }

    fn begin(&self, tid: usize) {
        TID.with(|t| t.set(tid));
        let mut st = self.st.lock().unwrap();
        while st.cur != tid {
            st = self.cv.wait(st).unwrap();
        }
        st.th[tid] = Want::Run;
        st.trace.push(format!(r#"{{"t":{},"k":"begin"}}"#, tid));
    }

    fn end(&self) {
        let me = Self::me();
        let mut st = self.st.lock().unwrap();
        st.th[me] = Want::Done;
        st.trace.push(format!(r#"{{"t":{},"k":"end"}}"#, me));
        match st.pick() {
            None => self.stuck(&mut st, "deadlock at thread end"),
            Some(next) => {
                st.cur = next;
                st.taken.push(next);
            }
        }
        self.cv.notify_all();
    }
}

impl Probe for Sched {
    fn atomic_before(&self, _loc: usize, _op: &'static str, _arg: usize, _ord: Ordering) {
        self.yield_want(Want::Step);
    }
    fn atomic_after(&self, loc: usize, op: &'static str, old: usize) {
        // `arg`/`ord` are re-derived from the pending record kept in TLS
        let me = Self::me();
        let (arg, ord) = PENDING.with(|p| p.get());
        let mut st = self.st.lock().unwrap();
        let l = st.loc("A", loc);
        st.trace.push(format!(
            r#"{{"t":{},"k":"at","loc":"{}","op":"{}","arg":"{:x}","old":"{:x}","ord":"{}"}}"#,
            me, l, op, arg, old, ord
        ));
    }
    fn mutex_lock(&self, id: usize) {
        self.yield_want(Want::Lock(id));
        let me = Self::me();
        let mut st = self.st.lock().unwrap();
        let l = st.loc("M", id);
        st.trace.push(format!(r#"{{"t":{},"k":"lock","loc":"{}"}}"#, me, l));
    }
    fn mutex_try_lock(&self, id: usize) -> bool {
        self.yield_want(Want::Step);
        let me = Self::me();
        let mut st = self.st.lock().unwrap();
        let free = !st.owner.contains_key(&id);
        if free {
            st.owner.insert(id, me);
        }
        let l = st.loc("M", id);
        st.trace.push(format!(r#"{{"t":{},"k":"trylock","loc":"{}","got":{}}}"#, me, l, free));
        free
    }
    fn mutex_unlock(&self, id: usize) {
        let fine = self.st.lock().unwrap().fine;
        if fine {
            // the mutex is still held while the others get a turn: a try_lock made now fails
            self.yield_want(Want::Step);
        }
        let me = Self::me();
        let mut st = self.st.lock().unwrap();
        st.owner.remove(&id);
        let l = st.loc("M", id);
        st.trace.push(format!(r#"{{"t":{},"k":"unlock","loc":"{}"}}"#, me, l));
    }
    fn cv_wait(&self, cv: usize, mutex: usize) {
        {
            let me = Self::me();
            let mut st = self.st.lock().unwrap();
            let l = st.loc("V", cv);
            st.trace.push(format!(r#"{{"t":{},"k":"cvwait","loc":"{}"}}"#, me, l));
        }
        self.yield_want(Want::CvWait(cv, mutex, false));
        let me = Self::me();
        self.log(format!(r#"{{"t":{},"k":"cvwake"}}"#, me));
    }
    fn cv_notify_all(&self, cv: usize) {
        self.yield_want(Want::Step);
        let me = Self::me();
        let mut st = self.st.lock().unwrap();
        let mut n = 0;
        for w in st.th.iter_mut() {
            if let Want::CvWait(c, _, notified) = w {
                if *c == cv && !*notified {
                    *notified = true;
                    n += 1;
                }
            }
        }
        let l = st.loc("V", cv);
        st.trace.push(format!(r#"{{"t":{},"k":"notify","loc":"{}","woke":{}}}"#, me, l, n));
    }
    fn thread_spawn(&self) -> usize {
        let me = Self::me();
        let tid = self.new_thread();
        self.log(format!(r#"{{"t":{},"k":"spawn","child":{}}}"#, me, tid));
        tid
    }
    fn thread_begin(&self, token: usize) {
        self.begin(token);
    }
    fn thread_end(&self) {
        self.end();
    }
}

thread_local! {
    static PENDING: Cell<(usize, &'static str)> = const { Cell::new((0, "")) };
}

// The shim calls atomic_before(loc, op, arg, ord) then atomic_after(loc, op,
// old); keep arg/ord of the pending operation per thread.
struct ProbeWrap(Arc<Sched>);
impl Probe for ProbeWrap {
    fn atomic_before(&self, loc: usize, op: &'static str, arg: usize, ord: Ordering) {
        PENDING.with(|p| p.set((arg, ord_name(ord))));
        self.0.atomic_before(loc, op, arg, ord);
    }
    fn atomic_after(&self, loc: usize, op: &'static str, old: usize) {
        self.0.atomic_after(loc, op, old);
    }
    fn mutex_lock(&self, id: usize) {
        self.0.mutex_lock(id)
    }
    fn mutex_try_lock(&self, id: usize) -> bool {
        self.0.mutex_try_lock(id)
    }
    fn mutex_unlock(&self, id: usize) {
        self.0.mutex_unlock(id)
    }
    fn cv_wait(&self, cv: usize, mutex: usize) {
        self.0.cv_wait(cv, mutex)
    }
    fn cv_notify_all(&self, cv: usize) {
        self.0.cv_notify_all(cv)
    }
    fn thread_spawn(&self) -> usize {
        self.0.thread_spawn()
    }
    fn thread_begin(&self, token: usize) {
        self.0.thread_begin(token)
    }
    fn thread_end(&self) {
        self.0.thread_end()
    }
}

fn flush_trace(st: &mut St) {
    let stdout = std::io::stdout();
    let mut lock = stdout.lock();
    for l in st.trace.drain(..) {
        let _ = writeln!(lock, "{}", l);
    }
    let _ = lock.flush();
}

// ------------------------------------------------------------ shared objects

struct Shared {
    wakers: Mutex<HashMap<i64, Waker>>,
    channel: Mutex<Option<Channel<i64>>>,
    data: Vec<AtomicUsize>,
}

static NOTIFIED: AtomicBool = AtomicBool::new(false);
static GUNWIND: AtomicBool = AtomicBool::new(false);

fn worker_script(sched: &Arc<Sched>, sh: &Arc<Shared>, ops: &[Value]) {
    for op in ops {
        let name = op[0].as_str().unwrap();
        sched.yield_want(Want::Step);
        match name {
            "wake" => {
                let w = op[1].as_i64().unwrap();
                // plain data written before the wake (publication)
                sh.data[(w as usize) % sh.data.len()].fetch_add(1, Ordering::Relaxed);
                let wk = sh.wakers.lock().unwrap().remove(&w);
                if let Some(wk) = wk {
                    sched.hi(format!(r#""e":"wake_begin","w":{}"#, w));
                    wk.wake();
                    sched.hi(format!(r#""e":"wake_end","w":{}"#, w));
                    sh.wakers.lock().unwrap().insert(w, wk);
                } else {
                    sched.hi(format!(r#""e":"nop","why":"no waker {}""#, w));
                }
            }
            "drop" => {
                let w = op[1].as_i64().unwrap();
                let wk = sh.wakers.lock().unwrap().remove(&w);
                if let Some(wk) = wk {
                    sched.hi(format!(r#""e":"wdrop_begin","w":{}"#, w));
                    if w % 2 == 0 {
                        // dropped by unwinding: the thread panics while it owns the Waker
                        let _ = std::panic::catch_unwind(std::panic::AssertUnwindSafe(move || {
                            let _owned = wk;
                            panic!("scripted: unwinding drop");
                        }));
                    } else {
                        drop(wk);
                    }
                    sched.hi(format!(r#""e":"wdrop_end","w":{}"#, w));
                } else {
                    sched.hi(format!(r#""e":"nop","why":"no waker {}""#, w));
                }
            }
            "wakectl" => {
                let wk = sh.wakers.lock().unwrap().remove(&7);
                if let Some(wk) = wk {
                    sched.hi(r#""e":"wake_begin","w":7"#.to_string());
                    wk.wake();
                    sched.hi(r#""e":"wake_end","w":7"#.to_string());
                    sh.wakers.lock().unwrap().insert(7, wk);
                }
            }
            "send" => {
                let v = op[1].as_i64().unwrap();
                let ch = sh.channel.lock().unwrap().clone();
                if let Some(ch) = ch {
                    sched.hi(format!(r#""e":"send_begin","v":{}"#, v));
                    let r = ch.send(v);
                    sched.hi(format!(r#""e":"send_end","v":{},"res":{}"#, v, r));
                }
            }
            "isclosed" => {
                let ch = sh.channel.lock().unwrap().clone();
                if let Some(ch) = ch {
                    sched.hi(r#""e":"isclosed_begin""#.to_string());
                    let r = ch.is_closed();
                    sched.hi(format!(r#""e":"isclosed","res":{}"#, r));
                }
            }
            other => panic!("harness: unknown worker op {}", other),
        }
    }
}

fn piped_worker(sched: &Arc<Sched>, link: &mut PipedLink<i64, i64>, ops: &[Value]) {
    for op in ops {
        let name = op[0].as_str().unwrap();
        sched.yield_want(Want::Step);
        match name {
            "recv" => {
                sched.hi(r#""e":"recv_begin""#.to_string());
                let r = link.recv();
                sched.hi(format!(
                    r#""e":"recv_end","has":{},"v":{}"#,
                    r.is_some(),
                    r.unwrap_or(0)
                ));
            }
            "send" => {
                let v = op[1].as_i64().unwrap();
                sched.hi(format!(r#""e":"lsend_begin","v":{}"#, v));
                let r = link.send(v);
                sched.hi(format!(r#""e":"lsend_end","v":{},"res":{}"#, v, r));
            }
            "cancel" => {
                let r = link.cancel();
                sched.hi(format!(r#""e":"cancelq","res":{}"#, r));
            }
            "panic" => {
                let msg = op[1].as_str().unwrap().to_string();
                sched.hi(format!(r#""e":"wpanic","msg":"{}""#, msg));
                // both payload types that panic!() produces: String (formatted) and &'static str (literal)
                if msg.bytes().last().map(|b| b % 2 == 1).unwrap_or(false) {
                    let lit: &'static str = Box::leak(msg.into_boxed_str());
                    std::panic::panic_any(lit);
                }
                std::panic::panic_any(msg);
            }
            other => panic!("harness: unknown piped op {}", other),
        }
    }
    sched.hi(r#""e":"wreturn""#.to_string());
}

// ------------------------------------------------------------ main side

struct MainState {
    stk: Option<Stakker>,
    guard: Option<ChannelGuard>,
    gslot: Option<std::rc::Rc<std::cell::RefCell<Option<ChannelGuard>>>>,
    piped: Option<PipedThread<i64, i64>>,
    pslot: Option<std::rc::Rc<std::cell::RefCell<Option<PipedThread<i64, i64>>>>>,
    next_w: i64,
}

impl MainState {
    fn take_piped(&mut self) -> Option<PipedThread<i64, i64>> {
        if let Some(p) = self.piped.take() {
            return Some(p);
        }
        self.pslot.as_ref().and_then(|s| s.borrow_mut().take())
    }
    fn has_piped(&self) -> bool {
        self.piped.is_some() || self.pslot.as_ref().map(|s| s.borrow().is_some()).unwrap_or(false)
    }
    fn take_guard(&mut self) -> Option<ChannelGuard> {
        if let Some(g) = self.guard.take() {
            return Some(g);
        }
        self.gslot.as_ref().and_then(|s| s.borrow_mut().take())
    }
}

// Programs that handlers run on the main thread, inside poll_wake:
// waker id -> (on wake, on the final deleted=true call)
static HPROG: Mutex<Option<HashMap<i64, (Vec<Value>, Vec<Value>)>>> = Mutex::new(None);

fn mk_waker(sched: &Arc<Sched>, sh: &Arc<Shared>, s: &mut Stakker, w: i64) -> Waker {
    let sc = sched.clone();
    let sh = sh.clone();
    s.waker(move |s, deleted| {
        sc.hi(format!(r#""e":"handler","w":{},"deleted":{}"#, w, deleted));
        let prog = HPROG
            .lock()
            .unwrap()
            .as_ref()
            .and_then(|m| m.get(&w).map(|p| if deleted { p.1.clone() } else { p.0.clone() }))
            .unwrap_or_default();
        for a in prog {
            match a[0].as_str().unwrap() {
                "drop" => {
                    let v = a[1].as_i64().unwrap();
                    let wk = sh.wakers.lock().unwrap().remove(&v);
                    if let Some(wk) = wk {
                        sc.hi(format!(r#""e":"wdrop_begin","w":{}"#, v));
                        drop(wk);
                        sc.hi(format!(r#""e":"wdrop_end","w":{}"#, v));
                    } else {
                        sc.hi(r#""e":"nop""#.to_string());
                    }
                }
                "wake" => {
                    let v = a[1].as_i64().unwrap();
                    let wk = sh.wakers.lock().unwrap().remove(&v);
                    if let Some(wk) = wk {
                        sc.hi(format!(r#""e":"wake_begin","w":{}"#, v));
                        wk.wake();
                        sc.hi(format!(r#""e":"wake_end","w":{}"#, v));
                        sh.wakers.lock().unwrap().insert(v, wk);
                    } else {
                        sc.hi(r#""e":"nop""#.to_string());
                    }
                }
                "poll" => {
                    sc.hi(r#""e":"poll_begin""#.to_string());
                    s.poll_wake();
                    sc.hi(r#""e":"poll_end""#.to_string());
                }
                other => panic!("harness: unknown handler action {}", other),
            }
        }
    })
}

fn do_poll(sched: &Arc<Sched>, ms: &mut MainState, force: bool) -> bool {
    let was = NOTIFIED.swap(false, Ordering::SeqCst);
    sched.hi(format!(r#""e":"pollcheck","notified":{}"#, was));
    if was || force {
        if let Some(s) = ms.stk.as_mut() {
            sched.hi(r#""e":"poll_begin""#.to_string());
            s.poll_wake();
            sched.hi(r#""e":"poll_end""#.to_string());
        }
    }
    was
}

fn main_op(sched: &Arc<Sched>, sh: &Arc<Shared>, ms: &mut MainState, op: &Value) {
    let name = op[0].as_str().unwrap();
    if name == "poll" {
        sched.yield_want(Want::WaitNotified);
    } else {
        sched.yield_want(Want::Step);
    }
    match name {
        "poll" | "trypoll" => {
            do_poll(sched, ms, false);
        }
        "wake" => {
            let w = op[1].as_i64().unwrap();
            let wk = sh.wakers.lock().unwrap().remove(&w);
            if let Some(wk) = wk {
                sched.hi(format!(r#""e":"wake_begin","w":{}"#, w));
                wk.wake();
                sched.hi(format!(r#""e":"wake_end","w":{}"#, w));
                sh.wakers.lock().unwrap().insert(w, wk);
            }
        }
        "drop" => {
            let w = op[1].as_i64().unwrap();
            let wk = sh.wakers.lock().unwrap().remove(&w);
            if let Some(wk) = wk {
                sched.hi(format!(r#""e":"wdrop_begin","w":{}"#, w));
                drop(wk);
                sched.hi(format!(r#""e":"wdrop_end","w":{}"#, w));
            }
        }
        "create" => {
            // a new waker (may reuse a recycled slot)
            let w = ms.next_w;
            ms.next_w += 1;
            if let Some(s) = ms.stk.as_mut() {
                let wk = mk_waker(sched, sh, s, w);
                sched.hi(format!(r#""e":"wcreate","w":{}"#, w));
                sh.wakers.lock().unwrap().insert(w, wk);
            }
        }
        "dropguard" => {
            sched.hi(r#""e":"guard_drop_begin""#.to_string());
            let g = ms.take_guard();
            if GUNWIND.load(Ordering::SeqCst) {
                // dropped by unwinding: the code that owns the guard panics
                let _ = std::panic::catch_unwind(std::panic::AssertUnwindSafe(move || {
                    let _owned = g;
                    panic!("scripted: unwinding guard drop");
                }));
            } else {
                drop(g);
            }
            sched.hi(r#""e":"guard_drop_end""#.to_string());
        }
        "psend" => {
            let v = op[1].as_i64().unwrap();
            if let Some(p) = ms.piped.as_mut() {
                sched.hi(format!(r#""e":"psend_begin","v":{}"#, v));
                p.send(v);
                sched.hi(format!(r#""e":"psend_end","v":{}"#, v));
            } else if let Some(slot) = ms.pslot.clone() {
                let mut g = slot.borrow_mut();
                if let Some(p) = g.as_mut() {
                    sched.hi(format!(r#""e":"psend_begin","v":{}"#, v));
                    p.send(v);
                    sched.hi(format!(r#""e":"psend_end","v":{}"#, v));
                }
            }
        }
        "pdrop" => {
            sched.hi(r#""e":"pdrop_begin""#.to_string());
            drop(ms.take_piped());
            sched.hi(r#""e":"pdrop_end""#.to_string());
        }
        other => panic!("harness: unknown main op {}", other),
    }
}

fn gdf_case(case: &Value) -> bool {
    case["gdf"].as_bool().unwrap_or(false)
}

fn run_case(sched: &Arc<Sched>, case: &Value, idx: usize) {
    {
        let mut st = sched.st.lock().unwrap();
        st.cur = 0;
        st.th = vec![Want::Run];
        st.sched = case["schedule"]
            .as_array()
            .map(|a| a.iter().map(|v| v.as_u64().unwrap() as usize).collect())
            .unwrap_or_default();
        st.pos = 0;
        st.rng = case["seed"].as_u64().unwrap_or(1).wrapping_mul(0x9E3779B97F4A7C15) | 1;
        st.rand_fallback = case["fallback"].as_str() == Some("rand");
        st.fine = case["fine"].as_bool().unwrap_or(false);
        st.pct = case["fallback"].as_str() == Some("pct");
        st.prio.clear();
        st.picks = 0;
        st.low = 0;
        st.change = case["change"]
            .as_array()
            .map(|a| a.iter().map(|v| v.as_u64().unwrap() as usize).collect())
            .unwrap_or_default();
        st.owner.clear();
        st.steps = 0;
        st.locs.clear();
        st.taken.clear();
        st.case_idx = idx;
        st.armed = false;
        st.trace.push(format!(
            r#"{{"t":-1,"e":"case","name":{},"idx":{},"kind":{},"props":{}}}"#,
            case["case"],
            idx,
            case["kind"],
            case.get("props").cloned().unwrap_or(serde_json::json!([]))
        ));
    }
    NOTIFIED.store(false, Ordering::SeqCst);
    GUNWIND.store(case["gunwind"].as_bool().unwrap_or(false), Ordering::SeqCst);
    let kind = case["kind"].as_str().unwrap();
    {
        let mut hp = HashMap::new();
        if let Some(m) = case.get("hprog").and_then(|v| v.as_object()) {
            for (k, v) in m {
                let get = |f: &str| v.get(f).and_then(|x| x.as_array()).cloned().unwrap_or_default();
                hp.insert(k.parse::<i64>().unwrap(), (get("wake"), get("final")));
            }
        }
        *HPROG.lock().unwrap() = Some(hp);
    }
    let sh = Arc::new(Shared {
        wakers: Mutex::new(HashMap::new()),
        channel: Mutex::new(None),
        data: (0..16).map(|_| AtomicUsize::new(0)).collect(),
    });
    let mut ms = MainState {
        stk: Some(Stakker::new(Instant::now())),
        guard: None,
        gslot: None,
        piped: None,
        pslot: None,
        next_w: 1000,
    };
    {
        let sc = sched.clone();
        ms.stk.as_mut().unwrap().set_poll_waker(move || {
            sc.hi(r#""e":"pollwaker""#.to_string());
            NOTIFIED.store(true, Ordering::SeqCst);
            // the I/O poller's wake-up call is a scheduling point of its own:
            // the main thread may react before wake() has returned
            sc.yield_want(Want::Step);
        });
    }
    let empty = vec![];
    let threads: Vec<Vec<Value>> = case["threads"]
        .as_array()
        .unwrap_or(&empty)
        .iter()
        .map(|t| t.as_array().unwrap().clone())
        .collect();
    let mut handles = Vec::new();
    match kind {
        "waker" => {
            // Create wakers at the requested slab indices (fillers in between)
            let want: Vec<i64> = case["wakers"]
                .as_array()
                .unwrap()
                .iter()
                .map(|v| v.as_i64().unwrap())
                .collect();
            let maxi = want.iter().cloned().max().unwrap_or(0);
            let s = ms.stk.as_mut().unwrap();
            let mut fillers = Vec::new();
            // slab index 0 is reserved by the first add (swap) so the first
            // waker gets index 1, the next 2, ... skipping bitmap bases
            let mut next_index: i64 = 1;
            let mut k = 0;
            while next_index <= maxi {
                if next_index % 4096 == 0 {
                    next_index += 1;
                    continue;
                }
                if want.contains(&next_index) {
                    let wk = mk_waker(sched, &sh, s, next_index);
                    sh.wakers.lock().unwrap().insert(next_index, wk);
                } else {
                    fillers.push(s.waker(|_, _| {}));
                    k += 1;
                }
                next_index += 1;
            }
            sched.hi(format!(r#""e":"setup","wakers":{},"fillers":{}"#, case["wakers"], k));
            // fillers stay alive for the whole case
            std::mem::forget(fillers);
        }
        "channel" => {
            let nf = case["fillers"].as_u64().unwrap_or(0);
            let s = ms.stk.as_mut().unwrap();
            let mut fillers = Vec::new();
            for _ in 0..nf {
                fillers.push(s.waker(|_, _| {}));
            }
            std::mem::forget(fillers);
            // plain Wakers created before the channel (they share its leaf word)
            if let Some(ws) = case["wakers"].as_array() {
                let ws: Vec<i64> = ws.iter().map(|v| v.as_i64().unwrap()).filter(|w| *w != 7 && *w != 1).collect();
                if !ws.is_empty() {
                    let s = ms.stk.as_mut().unwrap();
                    for w in ws.iter() {
                        let wk = mk_waker(sched, &sh, s, *w);
                        sh.wakers.lock().unwrap().insert(*w, wk);
                    }
                    sched.hi(format!(r#""e":"setup","wakers":{},"fillers":0"#, serde_json::to_string(&ws).unwrap()));
                }
            }
            let gslot: std::rc::Rc<std::cell::RefCell<Option<ChannelGuard>>> = std::rc::Rc::new(std::cell::RefCell::new(None));
            if case["ctl"].as_bool().unwrap_or(false) {
                // control Waker (lower slab index than the channel's): its handler drops the guard
                let sc0 = sched.clone();
                let g2 = gslot.clone();
                let s = ms.stk.as_mut().unwrap();
                let wk = s.waker(move |_s, deleted| {
                    sc0.hi(format!(r#""e":"handler","w":7,"deleted":{}"#, deleted));
                    if !deleted {
                        sc0.hi(r#""e":"guard_drop_begin""#.to_string());
                        let g = g2.borrow_mut().take();
                        drop(g);
                        sc0.hi(r#""e":"guard_drop_end""#.to_string());
                    }
                });
                sh.wakers.lock().unwrap().insert(7, wk);
                sched.hi(r#""e":"setup","wakers":[7],"fillers":0"#.to_string());
            }
            let sc = sched.clone();
            let cecho = case["cecho"].as_bool().unwrap_or(false);
            let gdf = case["gdf"].as_bool().unwrap_or(false);
            let sh2 = sh.clone();
            let gslot_f = gslot.clone();
            let fwd = Fwd::new(move |v: i64| {
                sc.hi(format!(r#""e":"fwd","v":{}"#, v));
                if gdf {
                    // the receiver gives up while it is being handed a batch: it drops the guard from
                    // inside the Fwd target (first message only; later calls find the slot empty)
                    let g = gslot_f.borrow_mut().take();
                    if g.is_some() {
                        sc.hi(r#""e":"guard_drop_begin""#.to_string());
                        drop(g);
                        sc.hi(r#""e":"guard_drop_end""#.to_string());
                    }
                }
                if cecho && v < 1000 {
                    // the receiver answers through the same channel, from inside the forwarding loop
                    let ch = sh2.channel.lock().unwrap().clone();
                    if let Some(ch) = ch {
                        sc.hi(format!(r#""e":"send_begin","v":{}"#, v + 1000));
                        let r = ch.send(v + 1000);
                        sc.hi(format!(r#""e":"send_end","v":{},"res":{}"#, v + 1000, r));
                    }
                }
                // user code: its return is a scheduling point
                sc.yield_want(Want::Step);
            });
            let s = ms.stk.as_mut().unwrap();
            let (ch, guard) = Channel::new(s, fwd);
            *sh.channel.lock().unwrap() = Some(ch);
            if case["ctl"].as_bool().unwrap_or(false) || gdf_case(case) {
                *gslot.borrow_mut() = Some(guard);
                ms.gslot = Some(gslot);
            } else {
                ms.guard = Some(guard);
            }
            sched.hi(r#""e":"setup_channel""#.to_string());
        }
        "piped" => {
            let nf = case["fillers"].as_u64().unwrap_or(0);
            {
                let s = ms.stk.as_mut().unwrap();
                let mut fillers = Vec::new();
                for _ in 0..nf {
                    fillers.push(s.waker(|_, _| {}));
                }
                std::mem::forget(fillers);
            }
            let sc1 = sched.clone();
            let sc2 = sched.clone();
            let echo = case["echo"].as_bool().unwrap_or(false);
            let pslot: std::rc::Rc<std::cell::RefCell<Option<PipedThread<i64, i64>>>> =
                std::rc::Rc::new(std::cell::RefCell::new(None));
            let pslot2 = pslot.clone();
            let fwd_recv = Fwd::new(move |v: i64| {
                sc1.hi(format!(r#""e":"precv","v":{}"#, v));
                sc1.yield_want(Want::Step);
                if echo {
                    // a synchronous handler that talks back to the worker
                    let mut g = pslot2.borrow_mut();
                    if let Some(p) = g.as_mut() {
                        sc1.hi(format!(r#""e":"psend_begin","v":{}"#, v + 1000));
                        p.send(v + 1000);
                        sc1.hi(format!(r#""e":"psend_end","v":{}"#, v + 1000));
                    }
                }
            });
            let fwd_term = Fwd::new(move |p: Option<String>| {
                sc2.hi(format!(
                    r#""e":"pterm","panic":{},"msg":"{}""#,
                    p.is_some(),
                    p.unwrap_or_default()
                ));
                sc2.yield_want(Want::Step);
            });
            let ops = threads.first().cloned().unwrap_or_default();
            let sc3 = sched.clone();
            let s = ms.stk.as_mut().unwrap();
            sched.hi(r#""e":"setup_piped""#.to_string());
            let p = PipedThread::spawn(fwd_recv, fwd_term, s, move |link| {
                piped_worker(&sc3, link, &ops);
            });
            if echo {
                *pslot.borrow_mut() = Some(p);
                ms.pslot = Some(pslot);
            } else {
                ms.piped = Some(p);
            }
        }
        other => panic!("harness: unknown kind {}", other),
    }
    if kind != "piped" {
        for ops in threads.iter() {
            let tid = sched.new_thread();
            sched.log(format!(r#"{{"t":0,"k":"spawn","child":{}}}"#, tid));
            let sc = sched.clone();
            let sh2 = sh.clone();
            let ops = ops.clone();
            handles.push(std::thread::spawn(move || {
                sc.begin(tid);
                worker_script(&sc, &sh2, &ops);
                sc.end();
            }));
        }
    }
    // From here on scheduling decisions follow the given schedule
    {
        let mut st = sched.st.lock().unwrap();
        st.armed = true;
        st.taken.clear();
        st.trace.push(r#"{"t":-1,"e":"armed"}"#.to_string());
    }
    // main script
    if let Some(ops) = case["main"].as_array() {
        for op in ops {
            main_op(sched, &sh, &mut ms, op);
        }
    }
    // Let every other thread finish; a worker blocked in recv() needs the
    // PipedThread to be dropped first
    if kind == "piped" && ms.has_piped() && case["autodrop"].as_bool().unwrap_or(true) {
        sched.yield_want(Want::Step);
        sched.hi(r#""e":"pdrop_begin""#.to_string());
        drop(ms.take_piped());
        sched.hi(r#""e":"pdrop_end""#.to_string());
    }
    sched.yield_want(Want::Join);
    sched.hi(r#""e":"joined""#.to_string());
    // drain: an event loop keeps polling while it is being notified
    let mut guard = 0;
    while do_poll(sched, &mut ms, false) {
        guard += 1;
        if guard > 100 {
            break;
        }
    }
    sched.hi(r#""e":"quiesce""#.to_string());
    for h in handles {
        let _ = h.join();
    }
    // teardown (outside the property's scope, but must not crash)
    drop(ms.take_guard());
    drop(ms.take_piped());
    let mut ws: Vec<(i64, Waker)> = sh.wakers.lock().unwrap().drain().collect();
    ws.sort_by_key(|x| x.0);
    for (w, wk) in ws {
        sched.hi(format!(r#""e":"wdrop_begin","w":{}"#, w));
        drop(wk);
        sched.hi(format!(r#""e":"wdrop_end","w":{}"#, w));
    }
    *sh.channel.lock().unwrap() = None;
    let mut g2 = 0;
    while do_poll(sched, &mut ms, false) {
        g2 += 1;
        if g2 > 100 {
            break;
        }
    }
    sched.hi(r#""e":"teardown""#.to_string());
    drop(ms.stk.take());
    let taken = sched.st.lock().unwrap().taken.clone();
    sched.log(format!(
        r#"{{"t":-1,"e":"end","taken":{}}}"#,
        serde_json::to_string(&taken).unwrap()
    ));
}

fn main() {
    let args: Vec<String> = std::env::args().collect();
    let path = &args[1];
    let mut from = 0usize;
    if args.len() >= 4 && args[2] == "--from" {
        from = args[3].parse().unwrap();
    }
    let text = std::fs::read_to_string(path).expect("cannot read cases");
    let sched = Sched::new();
    set_probe(Some(Arc::new(ProbeWrap(sched.clone()))));
    {
        let sc = sched.clone();
        std::panic::set_hook(Box::new(move |info| {
            let msg = if let Some(s) = info.payload().downcast_ref::<&str>() {
                s.to_string()
            } else if let Some(s) = info.payload().downcast_ref::<String>() {
                s.clone()
            } else {
                "unknown".to_string()
            };
            // scripted worker panics are part of the case
            if msg.starts_with("scripted:") {
                return;
            }
            let loc = info
                .location()
                .map(|l| format!("{}:{}", l.file(), l.line()))
                .unwrap_or_default();
            let me = TID.with(|t| t.get());
            if let Ok(mut st) = sc.st.try_lock() {
                st.trace.push(format!(
                    r#"{{"t":{},"e":"panic","msg":"{}"}}"#,
                    me,
                    format!("{} @ {}", msg, loc).replace('\\', "/").replace('"', "'")
                ));
                st.trace.push(r#"{"t":-1,"e":"end"}"#.to_string());
                flush_trace(&mut st);
                println!("{{\"e\":\"restart\",\"next\":{}}}", st.case_idx + 1);
                let _ = std::io::stdout().flush();
            }
            std::process::exit(4);
        }));
    }
    for (idx, line) in text.lines().enumerate() {
        if idx < from || line.trim().is_empty() {
            continue;
        }
        let case: Value = serde_json::from_str(line).expect("bad case json");
        run_case(&sched, &case, idx);
        let mut st = sched.st.lock().unwrap();
        flush_trace(&mut st);
    }
}
