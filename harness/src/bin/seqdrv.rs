fn main(){println!("{}", serde_json::json!({"a":1}));}
