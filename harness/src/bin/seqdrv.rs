//! seqdrv: interprets JSON "programs" against the real single-threaded
//! part of stakker (queues, timers, actors, Ret/Fwd, slab, logger) and
//! emits an ndjson event trace for validation against the TLA+ specs.
//!
//! usage: seqdrv <cases.ndjson> [--from N]   (trace on stdout)
//!
//! One case per input line: {"case":"name","ops":[...]}.  A panic inside
//! the code under test is data: it is logged as a `panic` event and the
//! process exits with status 3 after flushing, so that the caller can
//! restart from the following case (`--from`).

use serde_json::Value;
use stakker::*;
use std::cell::{Cell, RefCell};
use std::collections::HashMap;
use std::io::Write;
use std::panic::{catch_unwind, AssertUnwindSafe};
use std::rc::Rc;
use std::time::{Duration, Instant};

// ---------------------------------------------------------------- world

enum TKey {
    Fixed(FixedTimerKey),
    Max(MaxTimerKey),
    Min(MinTimerKey),
}

#[derive(Default)]
struct World {
    out: Vec<String>,
    base: Option<Instant>,
    timers: HashMap<i64, TKey>,
    owns: HashMap<i64, OwnH>,
    towns: HashMap<i64, TOwnH>,
    refs: HashMap<i64, Actor<Node>>,
    rets: HashMap<i64, RetH>,
    fwds: HashMap<i64, FwdH>,
    deferrer: Option<Deferrer>,
    during: String,
    // slabs built during Prep, handed to the value when the actor becomes Ready
    pslabs: HashMap<i64, ActorOwnSlab<Node>>,
}

thread_local! {
    static PENDING_SUB: RefCell<Option<String>> = const { RefCell::new(None) };
    static W: RefCell<World> = RefCell::new(World::default());
    static PANIC_MSG: RefCell<Option<String>> = const { RefCell::new(None) };
}

fn w<T>(f: impl FnOnce(&mut World) -> T) -> T {
    W.with(|w| f(&mut w.borrow_mut()))
}

fn ev(s: String) {
    // (also reached from destructors that run while the thread's locals are being torn down)
    let _ = W.try_with(|w| {
        if let Ok(mut w) = w.try_borrow_mut() {
            w.out.push(s);
        }
    });
}

// Handles an application keeps in a thread-local of its own, created before
// any Stakker: they are dropped by that thread-local's destructor when the
// thread exits, after the runtime's own thread-locals are gone
struct ParkH {
    own: Option<ActorOwn<Node>>,
    ret: Option<Ret<i64>>,
    d: Option<Deferrer>,
}
impl Drop for ParkH {
    fn drop(&mut self) {
        // a drop handler that uses its Deferrer, as the documentation recommends
        if let Some(d) = self.d.take() {
            d.defer(|_| {});
        }
        drop(self.ret.take());
        drop(self.own.take());
    }
}
thread_local! {
    static PARKED: RefCell<Vec<ParkH>> = const { RefCell::new(Vec::new()) };
}

fn base() -> Instant {
    w(|w| w.base.unwrap())
}

// [s, ns] relative to base; s may be negative (instant before base)
fn inst(v: &Value) -> Instant {
    let s = v[0].as_i64().unwrap();
    let ns = v[1].as_u64().unwrap() as u32;
    let b = base();
    if s >= 0 {
        b + Duration::new(s as u64, ns)
    } else {
        b - Duration::new((-s) as u64, 0) + Duration::new(0, ns)
    }
}

fn dur(v: &Value) -> Duration {
    Duration::new(v[0].as_u64().unwrap(), v[1].as_u64().unwrap() as u32)
}

fn tj(i: Instant) -> String {
    let b = base();
    if i >= b {
        let d = i - b;
        format!("[{},{}]", d.as_secs(), d.subsec_nanos())
    } else {
        let d = b - i;
        if d.subsec_nanos() == 0 {
            format!("[-{},0]", d.as_secs())
        } else {
            format!("[-{},{}]", d.as_secs() + 1, 1_000_000_000 - d.subsec_nanos())
        }
    }
}

fn dj(d: Duration) -> String {
    format!("[{},{}]", d.as_secs(), d.subsec_nanos())
}

// ---------------------------------------------------------------- handles

// Owner handle wrapper: logs before the real ActorOwn is dropped
struct OwnH {
    oid: i64,
    aid: i64,
    own: Option<ActorOwn<Node>>,
}
impl Drop for OwnH {
    fn drop(&mut self) {
        if let Some(own) = self.own.take() {
            ev(format!(r#"{{"e":"owndrop","oid":{},"aid":{}}}"#, self.oid, self.aid));
            drop(own);
        }
    }
}

// A fixed argument given to ret_to!/ret_some_to!: it must be released exactly once, when the call is
// delivered or when the Ret's closure is released without a call
struct ArgTok {
    rid: i64,
}
impl Drop for ArgTok {
    fn drop(&mut self) {
        ev(format!(r#"{{"e":"argdrop","rid":{}}}"#, self.rid));
    }
}

// A trait-object actor (actor_of_trait!): only created, initialised and released
type PingBox = Box<dyn PingT>;
trait PingT {
    fn aid(&self) -> i64;
}
struct Pinger {
    vtok: VTok,
}
impl PingT for Pinger {
    fn aid(&self) -> i64 {
        self.vtok.aid
    }
}
impl Pinger {
    fn init(cx: CX![PingBox], aid: i64, tok: Tok) -> Option<PingBox> {
        ev(format!(
            r#"{{"e":"x","item":{},"now":{},"aid":{},"prep":true}}"#,
            tok.id(),
            tj(cx.now()),
            aid
        ));
        tok.ran.set(true);
        ev(format!(r#"{{"e":"xe","item":{},"some":true}}"#, tok.id()));
        drop(tok);
        Some(Box::new(Pinger { vtok: VTok { aid } }))
    }
}
struct TOwnH {
    oid: i64,
    aid: i64,
    own: Option<ActorOwn<PingBox>>,
}
impl Drop for TOwnH {
    fn drop(&mut self) {
        if let Some(own) = self.own.take() {
            ev(format!(r#"{{"e":"owndrop","oid":{},"aid":{}}}"#, self.oid, self.aid));
            drop(own);
        }
    }
}

// Ret handle wrapper: logs before the real Ret is dropped un-used
struct RetH {
    rid: i64,
    ret: Option<Ret<i64>>,
}
impl Drop for RetH {
    fn drop(&mut self) {
        if let Some(r) = self.ret.take() {
            ev(format!(r#"{{"e":"retdrop","rid":{}}}"#, self.rid));
            drop(r);
        }
    }
}

#[derive(Default)]
struct Holds {
    owns: Vec<OwnH>,
    rets: Vec<RetH>,
}

// Token captured by every closure / message handed to the runtime
struct Tok {
    def: Rc<Value>,
    ran: Cell<bool>,
    holds: RefCell<Holds>,
}

impl Tok {
    fn new(def: &Value) -> Tok {
        // Move the handles listed in "holds" out of the top-level
        // registry into this token
        let mut holds = Holds::default();
        if let Some(h) = def.get("holds") {
            if let Some(a) = h.get("owns").and_then(|v| v.as_array()) {
                for o in a {
                    if let Some(x) = w(|w| w.owns.remove(&o.as_i64().unwrap())) {
                        holds.owns.push(x);
                    }
                }
            }
            if let Some(a) = h.get("rets").and_then(|v| v.as_array()) {
                for o in a {
                    if let Some(x) = w(|w| w.rets.remove(&o.as_i64().unwrap())) {
                        holds.rets.push(x);
                    }
                }
            }
        }
        Tok {
            def: Rc::new(def.clone()),
            ran: Cell::new(false),
            holds: RefCell::new(holds),
        }
    }
    fn id(&self) -> i64 {
        self.def["id"].as_i64().unwrap()
    }
    // Make held handles available to the ops of the running item;
    // returns the ids so that leftovers can be dropped at the end
    fn unpack(&self) -> (Vec<i64>, Vec<i64>) {
        let h = std::mem::take(&mut *self.holds.borrow_mut());
        let mut oi = vec![];
        let mut ri = vec![];
        for o in h.owns {
            oi.push(o.oid);
            w(|w| w.owns.insert(o.oid, o));
        }
        for r in h.rets {
            ri.push(r.rid);
            w(|w| w.rets.insert(r.rid, r));
        }
        (oi, ri)
    }
}

// Closure captures are dropped when the closure finishes -- or when a
// panic unwinds through it
struct Leftovers(Vec<i64>, Vec<i64>);
impl Drop for Leftovers {
    fn drop(&mut self) {
        for r in std::mem::take(&mut self.1) {
            let x = w(|w| w.rets.remove(&r));
            drop(x);
        }
        for o in std::mem::take(&mut self.0) {
            let x = w(|w| w.owns.remove(&o));
            drop(x);
        }
    }
}

fn drop_leftovers(l: Leftovers) {
    drop(l);
}

impl Drop for Tok {
    fn drop(&mut self) {
        ev(format!(
            r#"{{"e":"drop","item":{},"ran":{}}}"#,
            self.id(),
            self.ran.get()
        ));
        if let Some(ops) = self.def.get("ondrop").and_then(|v| v.as_array()) {
            if !ops.is_empty() {
                ev(format!(r#"{{"e":"dh","item":{}}}"#, self.id()));
                exec_ops(ops, &mut Ctx::D);
                ev(format!(r#"{{"e":"dhe","item":{}}}"#, self.id()));
            }
        }
    }
}

// ---------------------------------------------------------------- shapes

#[derive(Copy, Clone)]
struct A1;
#[derive(Copy, Clone)]
#[repr(align(8))]
struct A8;
#[derive(Copy, Clone)]
#[repr(align(16))]
struct A16;
#[derive(Copy, Clone)]
#[repr(align(64))]
struct A64;
#[derive(Copy, Clone)]
#[repr(align(128))]
struct A128;

struct Pad<A: Copy, const N: usize> {
    _a: [A; 0],
    seed: u8,
    d: [u8; N],
}
impl<A: Copy, const N: usize> Pad<A, N> {
    #[inline(never)]
    fn new(seed: u8) -> Self {
        let mut d = [0u8; N];
        for (i, b) in d.iter_mut().enumerate() {
            *b = seed.wrapping_add((i as u8).wrapping_mul(31));
        }
        Pad { _a: [], seed, d }
    }
    #[inline(never)]
    fn check(&self, id: i64) {
        let addr = self as *const Self as usize;
        let mut ok = addr % std::mem::align_of::<A>() == 0;
        for (i, b) in self.d.iter().enumerate() {
            if *b != self.seed.wrapping_add((i as u8).wrapping_mul(31)) {
                ok = false;
            }
        }
        if !ok {
            ev(format!(r#"{{"e":"corrupt","item":{}}}"#, id));
        }
    }
}

include!("../inc/shapes.rs");

// ---------------------------------------------------------------- items

fn run_item(s: &mut Stakker, tok: Tok) {
    let id = tok.id();
    ev(format!(r#"{{"e":"x","item":{},"now":{}}}"#, id, tj(s.now())));
    tok.ran.set(true);
    let left = { let (o, r) = tok.unpack(); Leftovers(o, r) };
    let def = tok.def.clone();
    if let Some(ops) = def.get("ops").and_then(|v| v.as_array()) {
        exec_ops(ops, &mut Ctx::S(s));
    }
    drop_leftovers(left);
    ev(format!(r#"{{"e":"xe","item":{}}}"#, id));
    drop(tok);
}

// ---------------------------------------------------------------- actor

struct VTok {
    aid: i64,
}
impl Drop for VTok {
    fn drop(&mut self) {
        // what is_zombie() says while the value is being dropped (true when termination drops it;
        // the std and packed cells must agree)
        let aid = self.aid;
        let z = W
            .try_with(|w| w.try_borrow().ok().and_then(|w| w.refs.get(&aid).map(|a| a.is_zombie())))
            .ok()
            .flatten();
        match z {
            Some(z) => ev(format!(r#"{{"e":"vdrop","aid":{},"zombie":{}}}"#, self.aid, z)),
            None => ev(format!(r#"{{"e":"vdrop","aid":{}}}"#, self.aid)),
        }
    }
}

// What an actor value defers from its own Drop, through Actor::defer
struct VDefer {
    me: Option<Actor<Node>>,
    items: Vec<Value>,
}
impl Drop for VDefer {
    fn drop(&mut self) {
        if let Some(me) = self.me.take() {
            for item in self.items.drain(..) {
                let tok = Tok::new(&item);
                submit_ev("main", &item, r#","via":"actor""#.to_string());
                me.defer(move |s| run_item(s, tok));
            }
        }
    }
}

// The slab of child owners kept in the value: its drop is an event of its own
// (it comes after what the value's Drop handler defers)
struct SlabH {
    aid: i64,
    slab: ActorOwnSlab<Node>,
}
impl Drop for SlabH {
    fn drop(&mut self) {
        ev(format!(r#"{{"e":"slabdrop","aid":{}}}"#, self.aid));
    }
}

struct Node {
    // Field order matters: kept handles are dropped after `vtok`
    vtok: VTok,
    vdefer: VDefer,
    slab: SlabH,
    aid: i64,
    running: bool,
    kept_owns: Vec<OwnH>,
    kept_rets: Vec<RetH>,
}

impl Node {
    fn new(aid: i64) -> Self {
        Node {
            vtok: VTok { aid },
            vdefer: VDefer { me: None, items: Vec::new() },
            aid,
            running: false,
            kept_owns: Vec::new(),
            kept_rets: Vec::new(),
            slab: SlabH { aid, slab: w(|w| w.pslabs.remove(&aid)).unwrap_or_default() },
        }
    }

    // Prep-style method: every step of initialisation
    fn init(cx: CX![], aid: i64, tok: Tok) -> Option<Self> {
        let id = tok.id();
        ev(format!(
            r#"{{"e":"x","item":{},"now":{},"aid":{},"prep":true}}"#,
            id,
            tj(cx.now()),
            aid
        ));
        tok.ran.set(true);
        let left = { let (o, r) = tok.unpack(); Leftovers(o, r) };
        let def = tok.def.clone();
        if let Some(ops) = def.get("ops").and_then(|v| v.as_array()) {
            exec_ops(ops, &mut Ctx::P(aid, cx));
        }
        drop_leftovers(left);
        let some = def.get("ret").and_then(|v| v.as_str()) == Some("some");
        ev(format!(r#"{{"e":"xe","item":{},"some":{}}}"#, id, some));
        drop(tok);
        if some {
            Some(Node::new(aid))
        } else {
            None
        }
    }

    // Ready-style method
    fn meth(&mut self, cx: CX![], tok: Tok) {
        let id = tok.id();
        if self.running {
            ev(format!(r#"{{"e":"reenter","aid":{}}}"#, self.aid));
        }
        self.running = true;
        ev(format!(
            r#"{{"e":"x","item":{},"now":{},"aid":{},"prep":false}}"#,
            id,
            tj(cx.now()),
            self.aid
        ));
        tok.ran.set(true);
        let left = { let (o, r) = tok.unpack(); Leftovers(o, r) };
        let def = tok.def.clone();
        if let Some(ops) = def.get("ops").and_then(|v| v.as_array()) {
            exec_ops(ops, &mut Ctx::M(self, cx));
        }
        drop_leftovers(left);
        ev(format!(r#"{{"e":"xe","item":{}}}"#, id));
        self.running = false;
        drop(tok);
    }

    // call!([cx], |this, cx| ...): the closure form needs `Self`
    fn call_self_closure(&mut self, cx: CX![], tok: Tok) {
        call!([cx], |this, cx| this.meth(cx, tok));
    }

    fn call_self_closure_prep(cx: CX![], tok: Tok) {
        call!([cx], |this, cx| this.meth(cx, tok));
    }

    // Target of ret_to!
    fn retm(&mut self, cx: CX![], rid: i64, _at: ArgTok, v: Option<i64>) {
        ev(format!(
            r#"{{"e":"rcall","rid":{},"aid":{},"has":{},"val":{},"now":{}}}"#,
            rid,
            self.aid,
            v.is_some(),
            v.unwrap_or(0),
            tj(cx.now())
        ));
    }

    // Prep-style target of a ret_to! (only runs while the actor is in Prep; leaves it there)
    fn initret(cx: CX![], aid: i64, rid: i64, _at: ArgTok, v: Option<i64>) -> Option<Self> {
        ev(format!(
            r#"{{"e":"rcall","rid":{},"aid":{},"has":{},"val":{},"now":{},"prep":true}}"#,
            rid,
            aid,
            v.is_some(),
            v.unwrap_or(0),
            tj(cx.now())
        ));
        None
    }

    // Target of ret_some_to!
    fn retsome(&mut self, cx: CX![], rid: i64, _at: ArgTok, v: i64) {
        ev(format!(
            r#"{{"e":"rcall","rid":{},"aid":{},"has":true,"val":{},"now":{}}}"#,
            rid,
            self.aid,
            v,
            tj(cx.now())
        ));
    }

    // Target of fwd_to!
    fn fwdm(&mut self, cx: CX![], fid: i64, v: i64) {
        ev(format!(
            r#"{{"e":"fcall","fid":{},"aid":{},"val":{},"now":{}}}"#,
            fid,
            self.aid,
            v,
            tj(cx.now())
        ));
    }
}

include!("../inc/argcalls.rs");

type Msg6 = (i64, i64, i64, i64, i64, i64);
#[derive(Clone)]
enum FwdH {
    One(Fwd<i64>),
    Six(Fwd<Msg6>),
}

// A structured error with a source: what fail()/kill() must deliver intact
#[derive(Debug)]
struct HErr {
    code: String,
    magic: u64,
    src: std::fmt::Error,
}
impl std::fmt::Display for HErr {
    fn fmt(&self, f: &mut std::fmt::Formatter<'_>) -> std::fmt::Result {
        write!(f, "{}", self.code)
    }
}
impl std::error::Error for HErr {
    fn source(&self) -> Option<&(dyn std::error::Error + 'static)> {
        Some(&self.src)
    }
}
fn herr(code: &str) -> Box<HErr> {
    Box::new(HErr { code: code.to_string(), magic: 0x5eed_0000 + code.len() as u64, src: std::fmt::Error })
}
// codes ending in an even byte travel as structured errors, the others as strings
fn structured(code: &str) -> bool {
    // (texts produced by the ret_fail!/ret_failthru! macros and the literal arms are always strings)
    if code.starts_with("rf") || code.starts_with("pf") || code.starts_with("pt") || code.contains("lit{") {
        return false;
    }
    code.bytes().last().map(|b| b % 2 == 0).unwrap_or(false)
}
fn payload_intact(c: &Option<StopCause>) -> bool {
    let e = match c {
        Some(StopCause::Failed(e)) | Some(StopCause::Killed(e)) => e,
        _ => return true,
    };
    let code = e.to_string();
    if !structured(&code) {
        return true;
    }
    match e.downcast_ref::<HErr>() {
        Some(h) => h.magic == 0x5eed_0000 + code.len() as u64 && std::error::Error::source(h).is_some(),
        None => false,
    }
}

fn cause_str(c: &Option<StopCause>) -> String {
    match c {
        None => "none".into(),
        Some(StopCause::Stopped) => "stopped".into(),
        Some(StopCause::Failed(e)) => format!("failed:{}", e),
        Some(StopCause::Killed(e)) => format!("killed:{}", e),
        Some(StopCause::Dropped) => "dropped".into(),
        Some(StopCause::Lost) => "lost".into(),
    }
}

fn mk_notify(aid: i64) -> Ret<StopCause> {
    Ret::new(move |c: Option<StopCause>| {
        let z = W
            .try_with(|w| w.try_borrow().ok().and_then(|w| w.refs.get(&aid).map(|a| a.is_zombie())))
            .ok()
            .flatten();
        ev(format!(
            r#"{{"e":"notify","aid":{},"cause":"{}","zombie":{},"intact":{}}}"#,
            aid,
            cause_str(&c),
            z.unwrap_or(true),
            payload_intact(&c)
        ));
    })
}

// the logging notifier, passing the cause on to a Ret wired to the parent (ret_fail!/ret_failthru!)
fn mk_notify_then(aid: i64, inner: Ret<StopCause>) -> Ret<StopCause> {
    Ret::new(move |c: Option<StopCause>| {
        let z = W
            .try_with(|w| w.try_borrow().ok().and_then(|w| w.refs.get(&aid).map(|a| a.is_zombie())))
            .ok()
            .flatten();
        ev(format!(
            r#"{{"e":"notify","aid":{},"cause":"{}","zombie":{},"intact":{}}}"#,
            aid,
            cause_str(&c),
            z.unwrap_or(true),
            payload_intact(&c)
        ));
        match c {
            Some(c) => ret!([inner], c),
            None => drop(inner),
        }
    })
}

// ---------------------------------------------------------------- ctx

enum Ctx<'a, 'b> {
    S(&'a mut Stakker),
    M(&'a mut Node, &'a mut Cx<'b, Node>),
    P(i64, &'a mut Cx<'b, Node>),
    D,
}

impl Ctx<'_, '_> {
    fn core(&mut self) -> Option<&mut Core> {
        match self {
            Ctx::S(s) => Some(&mut **s),
            Ctx::M(_, cx) => Some(&mut ***cx),
            Ctx::P(_, cx) => Some(&mut ***cx),
            Ctx::D => None,
        }
    }
    fn name(&self) -> &'static str {
        match self {
            Ctx::S(_) => "s",
            Ctx::M(..) => "m",
            Ctx::P(..) => "p",
            Ctx::D => "d",
        }
    }
}

fn get_i(op: &Value, k: &str) -> i64 {
    op[k].as_i64().unwrap_or_else(|| panic!("harness: missing int field {} in {}", k, op))
}

fn get_actor(aid: i64) -> Option<Actor<Node>> {
    w(|w| w.refs.get(&aid).cloned())
}

fn submit_ev(q: &str, item: &Value, extra: String) {
    let hr = item
        .get("holds")
        .and_then(|h| h.get("rets"))
        .cloned()
        .unwrap_or(serde_json::json!([]));
    ev(format!(
        r#"{{"e":"sub","q":"{}","item":{},"hr":{}{}}}"#,
        q,
        item["id"].as_i64().unwrap(),
        hr,
        extra
    ));
}

// Payload of a panic made on purpose by the "boom" op
struct Boom;

fn exec_ops(ops: &[Value], ctx: &mut Ctx) {
    for op in ops {
        exec_op(op, ctx);
    }
}

fn exec_op(op: &Value, ctx: &mut Ctx) {
    let name = op["op"].as_str().unwrap();
    w(|w| w.during = name.to_string());
    match name {
        // A panic raised by user code inside a closure / method; the caller
        // of run() catches the unwind (as the crate's own test harness does)
        "boom" => {
            ev(r#"{"e":"boom"}"#.to_string());
            flush();
            std::panic::panic_any(Boom);
        }
        // ------------------------------------------------ queues
        "defer" => {
            let item = &op["item"];
            let shape = item.get("shape").and_then(|v| v.as_i64()).unwrap_or(9);
            let id = get_i(item, "id");
            let seed = (id as u8).wrapping_mul(7);
            let via = op.get("via").and_then(|v| v.as_str()).unwrap_or("core");
            if via == "actor" {
                // Actor::defer: needs only a reference to the actor, whatever its state
                let aid = get_i(op, "aid");
                let actor = match get_actor(aid) {
                    Some(a) => a,
                    None => {
                        ev(format!(r#"{{"e":"nop","why":"unknown actor {}"}}"#, aid));
                        return;
                    }
                };
                let tok = Tok::new(item);
                submit_ev("main", item, r#","via":"actor""#.to_string());
                shaped!(shape, seed, |pad| actor.defer(move |s| {
                    pad.check(id);
                    run_item(s, tok)
                }));
                return;
            }
            let deferrer = match (via, ctx.core()) {
                ("core", Some(_)) => None,
                _ => match w(|w| w.deferrer.clone()) {
                    Some(d) => Some(d),
                    None => {
                        // Stray drop handler of an earlier Stakker's closure
                        ev(r#"{"e":"nop","why":"no deferrer"}"#.to_string());
                        return;
                    }
                },
            };
            let tok = Tok::new(item);
            submit_ev("main", item, format!(r#","via":"{}""#, via));
            if let Some(d) = deferrer {
                shaped!(shape, seed, |pad| d.defer(move |s| {
                    pad.check(id);
                    run_item(s, tok)
                }));
            } else {
                let core = ctx.core().unwrap();
                if id % 2 == 1 {
                    // the `[core], |stakker| ...` form of call!
                    shaped!(shape, seed, |pad| call!([core], |s| {
                        pad.check(id);
                        run_item(s, tok)
                    }));
                } else {
                    shaped!(shape, seed, |pad| core.defer(move |s| {
                        pad.check(id);
                        run_item(s, tok)
                    }));
                }
            }
        }
        "lazy" => {
            let item = &op["item"];
            let shape = item.get("shape").and_then(|v| v.as_i64()).unwrap_or(9);
            let id = get_i(item, "id");
            let seed = (id as u8).wrapping_mul(7);
            let tok = Tok::new(item);
            submit_ev("lazy", item, String::new());
            let core = ctx.core().expect("lazy needs core");
            if id % 2 == 1 {
                shaped!(shape, seed, |pad| lazy!([core], |s| {
                    pad.check(id);
                    run_item(s, tok)
                }));
            } else {
                shaped!(shape, seed, |pad| core.lazy(move |s| {
                    pad.check(id);
                    run_item(s, tok)
                }));
            }
        }
        "idle" => {
            let item = &op["item"];
            let tok = Tok::new(item);
            submit_ev("idle", item, String::new());
            let core = ctx.core().expect("idle needs core");
            if get_i(item, "id") % 2 == 1 {
                idle!([core], |s| run_item(s, tok));
            } else {
                core.idle(move |s| run_item(s, tok));
            }
        }
        // ------------------------------------------------ timers
        "tadd" | "after" | "tmac" => {
            let item = &op["item"];
            let tid = get_i(op, "tid");
            let kind = op["kind"].as_str().unwrap_or("fixed");
            let core = ctx.core().expect("timer op needs core");
            let now = core.now();
            let at = if name == "after" { now + dur(&op["d"]) } else { inst(&op["t"]) };
            let tok = Tok::new(item);
            let iid = get_i(item, "id");
            if name == "tmac" {
                // timer_max! / timer_min! semantics: update, else add
                let existing = w(|w| match w.timers.get(&tid) {
                    Some(TKey::Max(k)) => Some(TKey::Max(*k)),
                    Some(TKey::Min(k)) => Some(TKey::Min(*k)),
                    _ => None,
                });
                let (updated, key) = match (kind, existing) {
                    ("max", k) => {
                        let mut key = if let Some(TKey::Max(k)) = k { k } else { MaxTimerKey::default() };
                        let before = key;
                        timer_max!(&mut key, at, [core], |s| run_item(s, tok));
                        (before == key, TKey::Max(key))
                    }
                    (_, k) => {
                        let mut key = if let Some(TKey::Min(k)) = k { k } else { MinTimerKey::default() };
                        let before = key;
                        timer_min!(&mut key, at, [core], |s| run_item(s, tok));
                        (before == key, TKey::Min(key))
                    }
                };
                w(|w| w.timers.insert(tid, key));
                ev(format!(
                    r#"{{"e":"tmac","tid":{},"kind":"{}","t":{},"item":{},"upd":{},"now":{}}}"#,
                    tid, kind, tj(at), iid, updated, tj(now)
                ));
            } else {
                let key = match kind {
                    "max" => TKey::Max(core.timer_max_add(at, move |s| run_item(s, tok))),
                    "min" => TKey::Min(core.timer_min_add(at, move |s| run_item(s, tok))),
                    _ => {
                        // odd items go through the after!/at! macros (closure form)
                        if name == "after" {
                            if iid % 2 == 1 {
                                TKey::Fixed(after!(dur(&op["d"]), [core], |s| run_item(s, tok)))
                            } else {
                                TKey::Fixed(core.after(dur(&op["d"]), move |s| run_item(s, tok)))
                            }
                        } else if iid % 2 == 1 {
                            TKey::Fixed(at!(at, [core], |s| run_item(s, tok)))
                        } else {
                            TKey::Fixed(core.timer_add(at, move |s| run_item(s, tok)))
                        }
                    }
                };
                w(|w| w.timers.insert(tid, key));
                ev(format!(
                    r#"{{"e":"tadd","tid":{},"kind":"{}","t":{},"item":{},"now":{}}}"#,
                    tid, kind, tj(at), iid, tj(now)
                ));
            }
        }
        "tupd" | "tdel" | "tact" => {
            let tid = get_i(op, "tid");
            let core = ctx.core().expect("timer op needs core");
            // Negative tid: the Default key of the given kind
            let key = if tid < 0 {
                match op["kind"].as_str().unwrap() {
                    "max" => TKey::Max(MaxTimerKey::default()),
                    "min" => TKey::Min(MinTimerKey::default()),
                    _ => TKey::Fixed(FixedTimerKey::default()),
                }
            } else {
                match w(|w| {
                    w.timers.get(&tid).map(|k| match k {
                        TKey::Fixed(k) => TKey::Fixed(*k),
                        TKey::Max(k) => TKey::Max(*k),
                        TKey::Min(k) => TKey::Min(*k),
                    })
                }) {
                    Some(k) => k,
                    None => {
                        ev(format!(r#"{{"e":"nop","why":"unknown tid {}"}}"#, tid));
                        return;
                    }
                }
            };
            let kind = match key {
                TKey::Fixed(_) => "fixed",
                TKey::Max(_) => "max",
                TKey::Min(_) => "min",
            };
            match name {
                "tupd" => {
                    let at = inst(&op["t"]);
                    let now = core.now();
                    let res = match key {
                        TKey::Max(k) => core.timer_max_upd(k, at),
                        TKey::Min(k) => core.timer_min_upd(k, at),
                        TKey::Fixed(_) => panic!("harness: tupd on fixed timer"),
                    };
                    ev(format!(
                        r#"{{"e":"tupd","tid":{},"kind":"{}","t":{},"res":{},"now":{}}}"#,
                        tid, kind, tj(at), res, tj(now)
                    ));
                }
                "tdel" => {
                    ev(format!(r#"{{"e":"tdelb","tid":{}}}"#, tid));
                    let res = match key {
                        TKey::Max(k) => core.timer_max_del(k),
                        TKey::Min(k) => core.timer_min_del(k),
                        TKey::Fixed(k) => core.timer_del(k),
                    };
                    ev(format!(r#"{{"e":"tdel","tid":{},"kind":"{}","res":{}}}"#, tid, kind, res));
                }
                _ => {
                    let res = match key {
                        TKey::Max(k) => core.timer_max_active(k),
                        TKey::Min(k) => core.timer_min_active(k),
                        TKey::Fixed(_) => panic!("harness: tact on fixed timer"),
                    };
                    ev(format!(r#"{{"e":"tact","tid":{},"kind":"{}","res":{}}}"#, tid, kind, res));
                }
            }
        }
        "rerun" => {
            // run() re-entered from a closure (legitimate from the idle item)
            if let Ctx::S(s) = ctx {
                let t = inst(&op["t"]);
                let idle = op["idle"].as_bool().unwrap_or(false);
                ev(format!(r#"{{"e":"run","t":{},"idle":{}}}"#, tj(t), idle));
                let r = s.run(t, idle);
                ev(format!(r#"{{"e":"runend","ret":{},"now":{}}}"#, r, tj(s.now())));
            } else {
                panic!("harness: rerun needs stakker");
            }
        }
        "nexp" => {
            if let Ctx::S(s) = ctx {
                let x = s.next_expiry();
                ev(format!(
                    r#"{{"e":"nexp","has":{},"x":{}}}"#,
                    x.is_some(),
                    x.map(tj).unwrap_or("[0,0]".into())
                ));
            } else {
                panic!("harness: nexp needs stakker");
            }
        }
        "nwait" => {
            if let Ctx::S(s) = ctx {
                let now = inst(&op["now"]);
                let x = s.next_expiry();
                let r = s.next_wait(now);
                ev(format!(
                    r#"{{"e":"nwait","now":{},"has":{},"x":{},"rhas":{},"res":{}}}"#,
                    tj(now),
                    x.is_some(),
                    x.map(tj).unwrap_or("[0,0]".into()),
                    r.is_some(),
                    r.map(dj).unwrap_or("[0,0]".into())
                ));
            } else {
                panic!("harness: nwait needs stakker");
            }
        }
        "nwaitmax" => {
            if let Ctx::S(s) = ctx {
                let now = inst(&op["now"]);
                let maxd = dur(&op["max"]);
                let pending = op["pending"].as_bool().unwrap();
                let x = s.next_expiry();
                let r = s.next_wait_max(now, maxd, pending);
                ev(format!(
                    r#"{{"e":"nwaitmax","now":{},"max":{},"pending":{},"has":{},"x":{},"res":{}}}"#,
                    tj(now),
                    dj(maxd),
                    pending,
                    x.is_some(),
                    x.map(tj).unwrap_or("[0,0]".into()),
                    dj(r)
                ));
            } else {
                panic!("harness: nwaitmax needs stakker");
            }
        }
        "startinst" => {
            let core = ctx.core().expect("needs core");
            ev(format!(r#"{{"e":"startinst","t":{}}}"#, tj(core.start_instant())));
        }
        // ------------------------------------------------ actors
        "acreate" => {
            // {"op":"acreate","aid":A,"oid":O,"slab":bool,"init":{item..., "ret":"some"|"none"}}
            let aid = get_i(op, "aid");
            let oid = get_i(op, "oid");
            let in_slab = op.get("slab").and_then(|v| v.as_bool()).unwrap_or(false);
            let parent_aid = match ctx {
                Ctx::M(n, _) => n.aid,
                Ctx::P(a, _) => *a,
                _ => 0,
            };
            // the child's notifier may also be wired to its parent: ret_fail! (any end of the child fails the
            // parent) or ret_failthru! (only a failed / lost child does)
            let pn = op.get("pnotify").and_then(|v| v.as_str()).unwrap_or("");
            let notify = match (pn, &mut *ctx) {
                ("fail", Ctx::M(_, cx)) => {
                    let inner: Ret<StopCause> = ret_fail!(cx, "pf{}", aid);
                    mk_notify_then(aid, inner)
                }
                ("failthru", Ctx::M(_, cx)) => {
                    let inner: Ret<StopCause> = ret_failthru!(cx, "pt{}", aid);
                    mk_notify_then(aid, inner)
                }
                _ => mk_notify(aid),
            };
            let pn = if matches!(ctx, Ctx::M(_, _)) { pn } else { "" };
            let actor: Actor<Node>;
            if in_slab {
                if let Ctx::M(node, cx) = ctx {
                    let parent = cx.this().clone();
                    actor = node.slab.slab.add(cx, parent, |this| &mut this.slab.slab, notify);
                    w(|w| w.refs.insert(aid, actor.clone()));
                    ev(format!(
                        r#"{{"e":"acreate","aid":{},"oid":0,"parent":{},"slab":true,"logid":{},"pnotify":"{}"}}"#,
                        aid, parent_aid, actor.id(), pn
                    ));
                } else if let Ctx::P(paid, cx) = ctx {
                    // Parent still in Prep: the slab lives outside until Ready
                    let paid = *paid;
                    let parent = cx.this().clone();
                    let mut slab = w(|w| w.pslabs.remove(&paid)).unwrap_or_default();
                    actor = slab.add(cx, parent, |this| &mut this.slab.slab, notify);
                    w(|w| w.pslabs.insert(paid, slab));
                    w(|w| w.refs.insert(aid, actor.clone()));
                    ev(format!(
                        r#"{{"e":"acreate","aid":{},"oid":0,"parent":{},"slab":true,"logid":{},"pnotify":"{}"}}"#,
                        aid, parent_aid, actor.id(), pn
                    ));
                } else {
                    panic!("harness: slab create outside actor");
                }
            } else {
                // form 0: actor_new! + call!; forms 1/2: the two arms of actor! (creation + init call in one)
                let form = op.get("form").and_then(|v| v.as_i64()).unwrap_or(0);
                let mut init_done = false;
                let own = if form == 0 || op.get("init").is_none() {
                    match ctx {
                        Ctx::S(s) => actor_new!(s, Node, notify),
                        Ctx::M(_, cx) => actor_new!(cx, Node, notify),
                        Ctx::P(_, cx) => actor_new!(cx, Node, notify),
                        Ctx::D => panic!("harness: acreate in drop handler"),
                    }
                } else {
                    let init = &op["init"];
                    let tok = Tok::new(init);
                    init_done = true;
                    PENDING_SUB.with(|p| {
                        *p.borrow_mut() = Some(format!(
                            r#"{{"e":"sub","q":"main","item":{},"hr":[],"aid":{},"prep":true}}"#,
                            init["id"].as_i64().unwrap(),
                            aid
                        ))
                    });
                    match (form, &mut *ctx) {
                        (1, Ctx::S(s)) => actor!(s, Node::init(aid, tok), notify),
                        (1, Ctx::M(_, cx)) => actor!(cx, Node::init(aid, tok), notify),
                        (1, Ctx::P(_, cx)) => actor!(cx, Node::init(aid, tok), notify),
                        (_, Ctx::S(s)) => actor!(s, <Node>::init(aid, tok), notify),
                        (_, Ctx::M(_, cx)) => actor!(cx, <Node>::init(aid, tok), notify),
                        (_, Ctx::P(_, cx)) => actor!(cx, <Node>::init(aid, tok), notify),
                        (_, Ctx::D) => panic!("harness: acreate in drop handler"),
                    }
                };
                actor = own.clone();
                w(|w| w.refs.insert(aid, actor.clone()));
                ev(format!(
                    r#"{{"e":"acreate","aid":{},"oid":{},"parent":{},"slab":false,"logid":{},"pnotify":"{}"}}"#,
                    aid, oid, parent_aid, actor.id(), pn
                ));
                let h = OwnH { oid, aid, own: Some(own) };
                w(|w| w.owns.insert(oid, h));
                if init_done {
                    // the init call was queued by actor! itself: report the submission now
                    if let Some(l) = PENDING_SUB.with(|p| p.borrow_mut().take()) {
                        ev(l);
                    }
                    return;
                }
            }
            if let Some(init) = op.get("init") {
                let tok = Tok::new(init);
                submit_ev("main", init, format!(r#","aid":{},"prep":true"#, aid));
                let core = ctx.core().unwrap();
                call!([actor, core], Node::init(aid, tok));
            }
        }
        "call" => {
            // {"op":"call","aid":A,"prep":bool,"q":"main|lazy|idle","item":{...}}
            let aid = get_i(op, "aid");
            let prep = op.get("prep").and_then(|v| v.as_bool()).unwrap_or(false);
            let q = op.get("q").and_then(|v| v.as_str()).unwrap_or("main");
            let item = &op["item"];
            let _ = q;
            let actor = match get_actor(aid) {
                Some(a) => a,
                None => {
                    ev(format!(r#"{{"e":"nop","why":"unknown actor {}"}}"#, aid));
                    return;
                }
            };
            let tok = Tok::new(item);
            submit_ev("main", item, format!(r#","aid":{},"prep":{}"#, aid, prep));
            // calls of an actor to itself also go through the `[cx]` forms of call!
            let id = get_i(item, "id");
            let tok = match (&mut *ctx, prep) {
                (Ctx::M(n, cx), false) if n.aid == aid && id % 3 == 1 => {
                    call!([cx], meth(tok));
                    return;
                }
                (Ctx::M(n, cx), false) if n.aid == aid && id % 3 == 2 => {
                    n.call_self_closure(cx, tok);
                    return;
                }
                (Ctx::P(a, cx), false) if *a == aid && id % 3 == 2 => {
                    // a Ready-style call an actor makes to itself from its own init, closure form: held until Ready
                    Node::call_self_closure_prep(cx, tok);
                    return;
                }
                (Ctx::P(a, cx), true) if *a == aid && id % 2 == 1 => {
                    call!([cx], Node::init(aid, tok));
                    return;
                }
                (Ctx::P(a, cx), true) if *a == aid && id % 4 == 2 => {
                    call!([cx], <Node>::init(aid, tok));
                    return;
                }
                _ => tok,
            };
            match (ctx.core(), prep) {
                (None, false) => {
                    // From a drop handler: no core
                    call!([actor], meth(tok));
                }
                (None, true) => {
                    call!([actor], Node::init(aid, tok));
                }
                (Some(core), false) => call_args(&actor, core, tok, (id % 17) as usize, (id as u32).wrapping_mul(100)),
                (Some(core), true) => call!([actor, core], Node::init(aid, tok)),
            }
        }
        "apply" => {
            // Direct Actor::apply from a closure that has the Stakker: what
            // lazy!/idle!/after!([actor], method()) do when their turn comes
            let aid = get_i(op, "aid");
            let item = &op["item"];
            let actor = match get_actor(aid) {
                Some(a) => a,
                None => {
                    ev(format!(r#"{{"e":"nop","why":"unknown actor {}"}}"#, aid));
                    return;
                }
            };
            if let Ctx::S(s) = ctx {
                let tok = Tok::new(item);
                ev(format!(r#"{{"e":"apply","item":{},"aid":{}}}"#, get_i(item, "id"), aid));
                actor.apply(s, move |n, cx| n.meth(cx, tok));
            } else {
                panic!("harness: apply needs stakker");
            }
        }
        "query" => {
            // Actor::query: synchronous; runs the method only on a Ready actor
            // (a stop!/fail! made by it takes effect before query returns),
            // otherwise the closure is released un-run and None is returned
            let aid = get_i(op, "aid");
            let item = &op["item"];
            let actor = match get_actor(aid) {
                Some(a) => a,
                None => {
                    ev(format!(r#"{{"e":"nop","why":"unknown actor {}"}}"#, aid));
                    return;
                }
            };
            if let Ctx::S(s) = ctx {
                let tok = Tok::new(item);
                let id = get_i(item, "id");
                ev(format!(r#"{{"e":"query","item":{},"aid":{}}}"#, id, aid));
                let r = actor.query(s, move |n, cx| {
                    n.meth(cx, tok);
                    id
                });
                ev(format!(
                    r#"{{"e":"querye","item":{},"aid":{},"some":{},"okval":{}}}"#,
                    id,
                    aid,
                    r.is_some(),
                    r.map(|v| v == id).unwrap_or(true)
                ));
            } else {
                panic!("harness: query needs stakker");
            }
        }
        "vdefer" => {
            // the actor value will defer this item from its Drop handler (Actor::defer)
            if let Ctx::M(n, cx) = ctx {
                if n.vdefer.me.is_none() {
                    n.vdefer.me = Some(cx.this().clone());
                }
                n.vdefer.items.push(op["item"].clone());
            } else {
                panic!("harness: vdefer outside Ready method");
            }
        }
        "chain" => {
            // a chain of n closures each submitting the next one when it runs (deeper than any
            // JSON nesting limit): {"op":"chain","n":N,"id0":I,"via":"core|deferrer|mix","q":"defer|lazy|mix"}
            let n = get_i(op, "n");
            if n <= 0 {
                return;
            }
            let id0 = get_i(op, "id0");
            let via = op.get("via").and_then(|v| v.as_str()).unwrap_or("core");
            let q = op.get("q").and_then(|v| v.as_str()).unwrap_or("defer");
            let next = serde_json::json!({"op": "chain", "n": n - 1, "id0": id0 + 1, "via": via, "q": q});
            let item = serde_json::json!({"id": id0, "shape": id0 % 35, "ops": if n > 1 { vec![next] } else { vec![] }});
            let lazy = q == "lazy" || (q == "mix" && id0 % 7 == 3);
            let v = if via == "mix" { if id0 % 3 == 0 { "deferrer" } else { "core" } } else { via };
            let sub = if lazy {
                serde_json::json!({"op": "lazy", "item": item})
            } else {
                serde_json::json!({"op": "defer", "via": v, "item": item})
            };
            exec_op(&sub, ctx);
        }
        "shutdown" => {
            // Core::shutdown: only a flag for the event loop; must not change what the runtime does
            if let Some(core) = ctx.core() {
                core.shutdown(StopCause::Stopped);
                ev(r#"{"e":"shutdown"}"#.to_string());
            }
        }
        "shutreason" => {
            if let Some(core) = ctx.core() {
                let ns = core.not_shutdown();
                let r = core.shutdown_reason();
                ev(format!(r#"{{"e":"shutreason","notshut":{},"has":{}}}"#, ns, r.is_some()));
            }
        }
        "unwinddrop" => {
            // handles owned by a frame that panics (outside run(); caught by the caller): they are
            // dropped by the unwind and must behave exactly as if they had been dropped normally
            let mut owns = Vec::new();
            let mut rets = Vec::new();
            if let Some(a) = op.get("oids").and_then(|v| v.as_array()) {
                for o in a {
                    if let Some(h) = w(|w| w.owns.remove(&o.as_i64().unwrap())) {
                        owns.push(h);
                    }
                }
            }
            if let Some(a) = op.get("rids").and_then(|v| v.as_array()) {
                for r in a {
                    if let Some(h) = w(|w| w.rets.remove(&r.as_i64().unwrap())) {
                        rets.push(h);
                    }
                }
            }
            let r = catch_unwind(AssertUnwindSafe(move || {
                let _owned = (rets, owns);
                std::panic::panic_any(Boom);
            }));
            let _ = PANIC_MSG.with(|p| p.borrow_mut().take());
            drop(r);
        }
        "park" => {
            let oid = get_i(op, "oid");
            let own = w(|w| w.owns.remove(&oid)).and_then(|mut h| h.own.take());
            let ret = op
                .get("rid")
                .and_then(|v| v.as_i64())
                .and_then(|rid| w(|w| w.rets.remove(&rid)))
                .and_then(|mut h| h.ret.take());
            let d = w(|w| w.deferrer.clone());
            ev(format!(r#"{{"e":"park","oid":{}}}"#, oid));
            if own.is_some() || ret.is_some() {
                PARKED.with(|p| p.borrow_mut().push(ParkH { own, ret, d }));
            }
        }
        "stop" => match ctx {
            Ctx::M(n, cx) => {
                ev(format!(r#"{{"e":"stop","aid":{}}}"#, n.aid));
                stop!(cx);
            }
            Ctx::P(a, cx) => {
                ev(format!(r#"{{"e":"stop","aid":{}}}"#, a));
                stop!(cx);
            }
            _ => panic!("harness: stop outside actor"),
        },
        "fail" => {
            let code = op["code"].as_str().unwrap().to_string();
            match ctx {
                Ctx::M(n, cx) => {
                    ev(format!(r#"{{"e":"fail","aid":{},"code":"{}"}}"#, n.aid, code));
                    if code == "flit{{1}}" {
                        // the literal arm of fail!: verbatim text
                        fail!(cx, "flit{{1}}");
                    } else if structured(&code) {
                        fail!(cx, *herr(&code));
                    } else if code.len() % 2 == 0 {
                        cx.fail_str(Box::leak(code.into_boxed_str()));
                    } else {
                        cx.fail_string(code);
                    }
                }
                Ctx::P(a, cx) => {
                    ev(format!(r#"{{"e":"fail","aid":{},"code":"{}"}}"#, a, code));
                    if code == "flit{{1}}" {
                        // the literal arm of fail!: verbatim text
                        fail!(cx, "flit{{1}}");
                    } else if structured(&code) {
                        fail!(cx, *herr(&code));
                    } else if code.len() % 2 == 0 {
                        cx.fail_str(Box::leak(code.into_boxed_str()));
                    } else {
                        cx.fail_string(code);
                    }
                }
                _ => panic!("harness: fail outside actor"),
            }
        }
        "kill" => {
            // Synchronous kill through an owner held in the registry
            let oid = get_i(op, "oid");
            let code = op["code"].as_str().unwrap().to_string();
            if let Ctx::S(s) = ctx {
                let own = w(|w| w.owns.remove(&oid));
                if let Some(h) = own {
                    ev(format!(r#"{{"e":"kill","aid":{},"code":"{}"}}"#, h.aid, code));
                    if structured(&code) {
                        h.own.as_ref().unwrap().kill(s, herr(&code));
                    } else if code.len() % 2 == 0 {
                        h.own.as_ref().unwrap().kill_str(s, Box::leak(code.into_boxed_str()));
                    } else {
                        h.own.as_ref().unwrap().kill_string(s, code);
                    }
                    ev(format!(r#"{{"e":"kille","aid":{}}}"#, h.aid));
                    w(|w| w.owns.insert(oid, h));
                } else {
                    ev(format!(r#"{{"e":"nop","why":"no owner {}"}}"#, oid));
                }
            } else {
                panic!("harness: kill needs stakker");
            }
        }
        "tcreate" => {
            // actor_of_trait!: an actor whose type is a boxed trait object (both arms of the macro)
            let aid = get_i(op, "aid");
            let oid = get_i(op, "oid");
            let init = &op["init"];
            let tok = Tok::new(init);
            let parent_aid = match ctx {
                Ctx::M(n, _) => n.aid,
                Ctx::P(a, _) => *a,
                _ => 0,
            };
            let notify = mk_notify(aid);
            let arm = (aid + oid) % 2;
            let own: ActorOwn<PingBox> = match (arm, &mut *ctx) {
                (0, Ctx::S(s)) => actor_of_trait!(s, PingBox, Pinger::init(aid, tok), notify),
                (0, Ctx::M(_, cx)) => actor_of_trait!(cx, PingBox, Pinger::init(aid, tok), notify),
                (0, Ctx::P(_, cx)) => actor_of_trait!(cx, PingBox, Pinger::init(aid, tok), notify),
                (_, Ctx::S(s)) => actor_of_trait!(s, PingBox, <Pinger>::init(aid, tok), notify),
                (_, Ctx::M(_, cx)) => actor_of_trait!(cx, PingBox, <Pinger>::init(aid, tok), notify),
                (_, Ctx::P(_, cx)) => actor_of_trait!(cx, PingBox, <Pinger>::init(aid, tok), notify),
                (_, Ctx::D) => panic!("harness: tcreate in drop handler"),
            };
            ev(format!(
                r#"{{"e":"acreate","aid":{},"oid":{},"parent":{},"slab":false,"logid":{},"pnotify":""}}"#,
                aid,
                oid,
                parent_aid,
                own.id()
            ));
            ev(format!(
                r#"{{"e":"sub","q":"main","item":{},"hr":[],"aid":{},"prep":true}}"#,
                init["id"].as_i64().unwrap(),
                aid
            ));
            w(|w| w.towns.insert(oid, TOwnH { oid, aid, own: Some(own) }));
        }
        "dkill" => {
            // kill!(owner, ...): takes another owner and defers a closure that kills through it
            let oid = get_i(op, "oid");
            let code = op["code"].as_str().unwrap().to_string();
            let own = w(|w| w.owns.remove(&oid));
            if let Some(h) = own {
                ev(format!(r#"{{"e":"dkill","aid":{},"code":"{}"}}"#, h.aid, code));
                {
                    let o = h.own.as_ref().unwrap();
                    if code == "lit{{0}}" {
                        // the literal arm: the text is delivered verbatim (no formatting)
                        kill!(o, "lit{{0}}");
                    } else if structured(&code) {
                        kill!(o, herr(&code) as Box<dyn std::error::Error>);
                    } else {
                        kill!(o, "{}", code);
                    }
                }
                w(|w| w.owns.insert(oid, h));
            } else {
                ev(format!(r#"{{"e":"nop","why":"no owner {}"}}"#, oid));
            }
        }
        "owndrop" => {
            let oid = get_i(op, "oid");
            let h = w(|w| w.owns.remove(&oid));
            let th = w(|w| w.towns.remove(&oid));
            if h.is_none() && th.is_none() {
                ev(format!(r#"{{"e":"nop","why":"no owner {}"}}"#, oid));
            }
            drop(h);
            drop(th);
        }
        "ownclone" => {
            // owned(): another owning reference
            let oid = get_i(op, "oid");
            let oid2 = get_i(op, "oid2");
            let h2 = w(|w| {
                w.owns.get(&oid).map(|h| OwnH {
                    oid: oid2,
                    aid: h.aid,
                    own: Some(h.own.as_ref().unwrap().owned()),
                })
            });
            if let Some(h2) = h2 {
                ev(format!(r#"{{"e":"ownclone","oid":{},"oid2":{},"aid":{}}}"#, oid, oid2, h2.aid));
                w(|w| w.owns.insert(oid2, h2));
            } else {
                ev(format!(r#"{{"e":"nop","why":"no owner {}"}}"#, oid));
            }
        }
        "ownanon" => {
            // Convert to ActorOwnAnon and drop that
            let oid = get_i(op, "oid");
            let h = w(|w| w.owns.remove(&oid));
            if let Some(mut h) = h {
                let anon = h.own.take().unwrap().anon();
                ev(format!(r#"{{"e":"owndrop","oid":{},"aid":{}}}"#, h.oid, h.aid));
                drop(anon);
            }
        }
        "refstorm" => {
            // Create and drop n plain Actor/Fwd/Ret references (non-owning)
            let aid = get_i(op, "aid");
            let n = get_i(op, "n");
            if let Some(a) = get_actor(aid) {
                let mut v = Vec::new();
                let mut f = Vec::new();
                for i in 0..n {
                    v.push(a.clone());
                    let fw = fwd_to!([a], fwdm(-1) as (i64));
                    f.push(fw.clone());
                    f.push(fw);
                    if i % 2 == 0 {
                        v.pop();
                    }
                }
                drop(f);
                drop(v);
                // Deferrer references too
                if let Some(d) = w(|w| w.deferrer.clone()) {
                    let mut ds = Vec::new();
                    for _ in 0..n {
                        ds.push(d.clone());
                        ds.push(a.access_deferrer().clone());
                    }
                    ds.reverse();
                    drop(ds);
                }
                ev(format!(r#"{{"e":"refstorm","aid":{},"n":{}}}"#, aid, n));
            }
        }
        "keepown" => {
            // Move an owner from the registry into the running actor's state
            let oid = get_i(op, "oid");
            if let Ctx::M(n, _) = ctx {
                if let Some(h) = w(|w| w.owns.remove(&oid)) {
                    ev(format!(r#"{{"e":"keepown","oid":{},"aid":{},"by":{}}}"#, oid, h.aid, n.aid));
                    n.kept_owns.push(h);
                } else {
                    ev(format!(r#"{{"e":"nop","why":"no owner {}"}}"#, oid));
                }
            } else {
                panic!("harness: keepown outside method");
            }
        }
        "unkeepown" => {
            // Drop an owner kept in the running actor's state
            let oid = get_i(op, "oid");
            if let Ctx::M(n, _) = ctx {
                if let Some(p) = n.kept_owns.iter().position(|h| h.oid == oid) {
                    let h = n.kept_owns.remove(p);
                    drop(h);
                } else {
                    ev(format!(r#"{{"e":"nop","why":"not kept {}"}}"#, oid));
                }
            } else {
                panic!("harness: unkeepown outside method");
            }
        }
        "zombie" => {
            let aid = get_i(op, "aid");
            if let Some(a) = get_actor(aid) {
                ev(format!(r#"{{"e":"zombie","aid":{},"res":{}}}"#, aid, a.is_zombie()));
            }
        }
        "slablen" => {
            let aid = get_i(op, "aid");
            if let (Ctx::S(s), Some(a)) = (&mut *ctx, get_actor(aid)) {
                // len(), is_empty() and iteration must agree; zombies = children that have terminated
                // but whose deferred removal has not run yet
                let r = a.query(s, |n, _| {
                    let sl = &n.slab.slab;
                    let mut it = 0usize;
                    let mut z = 0usize;
                    for own in sl {
                        it += 1;
                        if own.is_zombie() {
                            z += 1;
                        }
                    }
                    (sl.len(), it, sl.is_empty(), z)
                });
                let (len, it, empty, z) = r.unwrap_or((0, 0, true, 0));
                ev(format!(
                    r#"{{"e":"slablen","aid":{},"ready":{},"len":{},"iter":{},"empty":{},"zombies":{}}}"#,
                    aid,
                    r.is_some(),
                    len,
                    it,
                    empty,
                    z
                ));
            }
        }
        // ------------------------------------------------ Ret / Fwd
        "mkret" => {
            // {"op":"mkret","rid":R,"kind":"plain"|"to"|"someto","aid":A}
            let rid = get_i(op, "rid");
            let kind = op["kind"].as_str().unwrap();
            let aid = op.get("aid").and_then(|v| v.as_i64()).unwrap_or(0);
            let ret: Ret<i64> = match kind {
                "plain" if rid % 2 == 1 => ret_do!(move |m: Option<i64>| {
                    ev(format!(
                        r#"{{"e":"retcb","rid":{},"has":{},"val":{}}}"#,
                        rid,
                        m.is_some(),
                        m.unwrap_or(0)
                    ));
                }),
                "plain" => Ret::new(move |m: Option<i64>| {
                    ev(format!(
                        r#"{{"e":"retcb","rid":{},"has":{},"val":{}}}"#,
                        rid,
                        m.is_some(),
                        m.unwrap_or(0)
                    ));
                }),
                // ret_fail!: whoever uses or drops this Ret fails the actor that made it
                "retfail" => {
                    if let Ctx::M(_, cx) = ctx {
                        ret_fail!(cx, "rf{}", rid)
                    } else {
                        ev(r#"{"e":"nop","why":"retfail outside a method"}"#.to_string());
                        return;
                    }
                }
                // ret_some_do!: the closure only hears about Some
                "somedo" => ret_some_do!(move |v: i64| {
                    ev(format!(r#"{{"e":"retcb","rid":{},"has":true,"val":{}}}"#, rid, v));
                }),
                "to" | "someto" | "toprep" => {
                    // inside the target's own method: the `[cx], |this, cx, m| ...` forms
                    if let Ctx::M(n, cx) = ctx {
                        if n.aid == aid && rid % 2 == 0 && kind != "toprep" {
                            let r: Ret<i64> = if kind == "to" {
                                {
                                    let at = ArgTok { rid };
                                    ret_to!([cx], |this, cx, m: Option<i64>| this.retm(cx, rid, at, m))
                                }
                            } else {
                                {
                                    let at = ArgTok { rid };
                                    ret_some_to!([cx], |this, cx, m: i64| this.retsome(cx, rid, at, m))
                                }
                            };
                            ev(format!(r#"{{"e":"mkret","rid":{},"kind":"{}","aid":{}}}"#, rid, kind, aid));
                            w(|w| w.rets.insert(rid, RetH { rid, ret: Some(r) }));
                            return;
                        }
                    }
                    let a = match get_actor(aid) {
                        Some(a) => a,
                        None => {
                            ev(format!(r#"{{"e":"nop","why":"unknown actor {}"}}"#, aid));
                            return;
                        }
                    };
                    if kind == "to" {
                        ret_to!([a], retm(rid, ArgTok { rid }) as (i64))
                    } else if kind == "toprep" {
                        ret_to!([a], Node::initret(aid, rid, ArgTok { rid }) as (i64))
                    } else {
                        ret_some_to!([a], retsome(rid, ArgTok { rid }) as (i64))
                    }
                }
                _ => panic!("harness: bad ret kind"),
            };
            ev(format!(r#"{{"e":"mkret","rid":{},"kind":"{}","aid":{}}}"#, rid, kind, aid));
            w(|w| w.rets.insert(rid, RetH { rid, ret: Some(ret) }));
        }
        "ret" => {
            let rid = get_i(op, "rid");
            let val = get_i(op, "val");
            let h = w(|w| w.rets.remove(&rid));
            if let Some(mut h) = h {
                ev(format!(r#"{{"e":"ret","rid":{},"val":{}}}"#, rid, val));
                let r = h.ret.take().unwrap();
                ret!([r], val);
            } else {
                ev(format!(r#"{{"e":"nop","why":"no ret {}"}}"#, rid));
            }
        }
        "retdrop" => {
            let rid = get_i(op, "rid");
            let h = w(|w| w.rets.remove(&rid));
            if h.is_none() {
                ev(format!(r#"{{"e":"nop","why":"no ret {}"}}"#, rid));
            }
            drop(h);
        }
        "keepret" => {
            let rid = get_i(op, "rid");
            if let Ctx::M(n, _) = ctx {
                if let Some(h) = w(|w| w.rets.remove(&rid)) {
                    ev(format!(r#"{{"e":"keepret","rid":{},"by":{}}}"#, rid, n.aid));
                    n.kept_rets.push(h);
                }
            } else {
                panic!("harness: keepret outside method");
            }
        }
        "mkfwd" if op.get("kind").and_then(|v| v.as_str()) == Some("do") => {
            // fwd_do!: a Fwd that calls a closure on the spot
            let fid = get_i(op, "fid");
            let f: Fwd<i64> = fwd_do!(move |v: i64| {
                ev(format!(r#"{{"e":"fcb","fid":{},"val":{}}}"#, fid, v));
            });
            ev(format!(r#"{{"e":"mkfwd","fid":{},"aid":0}}"#, fid));
            w(|w| w.fwds.insert(fid, FwdH::One(f)));
        }
        "mkfwd" => {
            let fid = get_i(op, "fid");
            let aid = get_i(op, "aid");
            let a = match get_actor(aid) {
                Some(a) => a,
                None => {
                    ev(format!(r#"{{"e":"nop","why":"unknown actor {}"}}"#, aid));
                    return;
                }
            };
            // every third Fwd has five fixed arguments and a six-value message
            let f = if fid % 3 == 2 {
                FwdH::Six(fwd_to!([a], fwdm6(fid, fid + 1, fid + 2, fid + 3, fid + 4, fid + 5) as (i64, i64, i64, i64, i64, i64)))
            } else {
                FwdH::One(fwd_to!([a], fwdm(fid) as (i64)))
            };
            ev(format!(r#"{{"e":"mkfwd","fid":{},"aid":{}}}"#, fid, aid));
            w(|w| w.fwds.insert(fid, f));
        }
        "fwd" => {
            let fid = get_i(op, "fid");
            let val = get_i(op, "val");
            let f = w(|w| w.fwds.get(&fid).cloned());
            if let Some(f) = f {
                ev(format!(r#"{{"e":"fwd","fid":{},"val":{}}}"#, fid, val));
                match f {
                    FwdH::One(f) => fwd!([f], val),
                    FwdH::Six(f) => fwd!([f], val, val + 1, val + 2, val + 3, val + 4, val + 5),
                }
            }
        }
        "fwddrop" => {
            let fid = get_i(op, "fid");
            let f = w(|w| w.fwds.remove(&fid));
            drop(f);
        }
        // ------------------------------------------------ logging
        "logfilter" => {
            // {"op":"logfilter","levels":[names...]}
            #[cfg(feature = "logger")]
            if let Ctx::S(s) = ctx {
                let f = mk_filter(&op["levels"]);
                ev(format!(r#"{{"e":"logfilter","levels":{}}}"#, op["levels"]));
                s.set_log_filter(f);
            }
        }
        "logcheck" => {
            let core = ctx.core().expect("needs core");
            let mut parts = Vec::new();
            for l in LogLevel::all_levels() {
                if core.log_check(*l) {
                    parts.push(format!("\"{}\"", l.name().to_lowercase()));
                }
            }
            ev(format!(r#"{{"e":"logcheck","allowed":[{}]}}"#, parts.join(",")));
        }
        "log" => {
            // Emit one record at the given level from this context
            let core = ctx.core().expect("needs core");
            let lvl: LogLevel = op["level"].as_str().unwrap().parse().unwrap();
            ev(format!(r#"{{"e":"logcall","level":"{}"}}"#, lvl.name().to_lowercase()));
            core.log(0, lvl, "verif", format_args!("probe"), |_| {});
        }
        other => panic!("harness: unknown op {}", other),
    }
    let _ = ctx.name();
}

#[cfg(feature = "logger")]
fn mk_filter(levels: &Value) -> LogFilter {
    let names: Vec<&str> = levels.as_array().unwrap().iter().map(|l| l.as_str().unwrap()).collect();
    let mut f = LogFilter::new();
    for l in &names {
        let lvl: LogLevel = l.parse().unwrap();
        f |= LogFilter::from(lvl);
    }
    // the same filter written the way a configuration file would have it ("warn, open", padded)
    if !names.is_empty() && names.iter().all(|n| *n != "off") {
        let text = format!(" {} ", names.join(" , "));
        let ok = match text.parse::<LogFilter>() {
            Ok(parsed) => parsed == f,
            Err(_) => false,
        };
        if !ok {
            ev(r#"{"e":"filterparse","ok":false}"#.to_string());
        }
    }
    f
}

// ---------------------------------------------------------------- top level

fn top_op(op: &Value, stk: &mut Option<Stakker>) {
    let name = op["op"].as_str().unwrap();
    w(|w| w.during = name.to_string());
    match name {
        "run" => {
            let s = stk.as_mut().expect("no stakker");
            let t = inst(&op["t"]);
            let idle = op["idle"].as_bool().unwrap_or(false);
            ev(format!(r#"{{"e":"run","t":{},"idle":{}}}"#, tj(t), idle));
            let r = s.run(t, idle);
            ev(format!(r#"{{"e":"runend","ret":{},"now":{}}}"#, r, tj(s.now())));
            zombie_report();
        }
        "drain_nexp" => {
            // Event loop that always sleeps until next_expiry()
            let s = stk.as_mut().expect("no stakker");
            let maxit = get_i(op, "max");
            let mut n = 0;
            ev(r#"{"e":"drain"}"#.to_string());
            while n < maxit {
                let x = s.next_expiry();
                ev(format!(
                    r#"{{"e":"nexp","has":{},"x":{}}}"#,
                    x.is_some(),
                    x.map(tj).unwrap_or("[0,0]".into())
                ));
                let t = match x {
                    Some(t) => t,
                    None => break,
                };
                ev(format!(r#"{{"e":"run","t":{},"idle":false}}"#, tj(t)));
                let r = s.run(t, false);
                ev(format!(r#"{{"e":"runend","ret":{},"now":{}}}"#, r, tj(s.now())));
                n += 1;
            }
            ev(format!(r#"{{"e":"drainend","iters":{},"max":{}}}"#, n, maxit));
        }
        "drop_stakker" => {
            ev(r#"{"e":"dropstakker"}"#.to_string());
            let s = stk.take();
            drop(s);
            ev(r#"{"e":"droppedstakker"}"#.to_string());
        }
        "dupstakker" => {
            // an attempt to create a second Stakker while the first is alive: refused (panic, caught here)
            // unless the build allows several Stakkers per thread; either way the live one is not disturbed
            if stk.is_some() {
                let base = base();
                let r = catch_unwind(AssertUnwindSafe(|| Stakker::new(base)));
                let _ = PANIC_MSG.with(|p| p.borrow_mut().take());
                ev(format!(r#"{{"e":"dupstakker","refused":{}}}"#, r.is_err()));
                drop(r);
            }
        }
        "restakker" => {
            // A second Stakker on the same thread after the first one is gone:
            // whatever the first one's handles deferred post-mortem must be
            // released by Stakker::new, never executed by the new runtime
            if stk.is_some() {
                ev(r#"{"e":"dropstakker"}"#.to_string());
                drop(stk.take());
                ev(r#"{"e":"droppedstakker"}"#.to_string());
            }
            clear_world();
            let d = w(|w| w.deferrer.take());
            drop(d);
            ev(r#"{"e":"renew"}"#.to_string());
            let base = base();
            *stk = Some(Stakker::new(base));
            ev(r#"{"e":"renewed"}"#.to_string());
            let d = stk.as_ref().unwrap().deferrer();
            w(|w| w.deferrer = Some(d));
        }
        "setlogger" => {
            #[cfg(feature = "logger")]
            {
                let s = stk.as_mut().expect("no stakker");
                let f = mk_filter(&op["levels"]);
                ev(format!(r#"{{"e":"setlogger","levels":{}}}"#, op["levels"]));
                let sink = op.get("sink").and_then(|v| v.as_bool()).unwrap_or(false);
                let mut sink_made = false;
                s.set_logger(f, move |_core, r| {
                    if sink && !sink_made {
                        // a logger that lazily creates its own sink actor while handling a record
                        sink_made = true;
                        let own = actor_new!(_core, Node, mk_notify(900));
                        let a = own.clone();
                        w(|w| w.refs.insert(900, a.clone()));
                        ev(format!(
                            r#"{{"e":"acreate","aid":900,"oid":900,"parent":0,"slab":false,"logid":{},"quiet":true}}"#,
                            a.id()
                        ));
                        w(|w| w.owns.insert(900, OwnH { oid: 900, aid: 900, own: Some(own) }));
                    }
                    struct V(Vec<String>);
                    impl LogVisitor for V {
                        fn kv_u64(&mut self, key: Option<&str>, val: u64) {
                            self.0.push(format!("{}={}", key.unwrap_or(""), val));
                        }
                        fn kv_i64(&mut self, key: Option<&str>, val: i64) {
                            self.0.push(format!("{}={}", key.unwrap_or(""), val));
                        }
                        fn kv_f64(&mut self, key: Option<&str>, _val: f64) {
                            self.0.push(key.unwrap_or("").to_string());
                        }
                        fn kv_bool(&mut self, key: Option<&str>, val: bool) {
                            self.0.push(format!("{}={}", key.unwrap_or(""), val));
                        }
                        fn kv_null(&mut self, key: Option<&str>) {
                            self.0.push(key.unwrap_or("").to_string());
                        }
                        fn kv_str(&mut self, key: Option<&str>, _val: &str) {
                            self.0.push(key.unwrap_or("").to_string());
                        }
                        fn kv_fmt(&mut self, key: Option<&str>, _val: &std::fmt::Arguments<'_>) {
                            self.0.push(key.unwrap_or("").to_string());
                        }
                        fn kv_map(&mut self, key: Option<&str>) {
                            self.0.push(key.unwrap_or("").to_string());
                        }
                        fn kv_mapend(&mut self, _key: Option<&str>) {}
                        fn kv_arr(&mut self, key: Option<&str>) {
                            self.0.push(key.unwrap_or("").to_string());
                        }
                        fn kv_arrend(&mut self, _key: Option<&str>) {}
                    }
                    let mut v = V(Vec::new());
                    (r.kvscan)(&mut v);
                    let mut parent = 0u64;
                    let mut marker = "";
                    for k in &v.0 {
                        if let Some(p) = k.strip_prefix("parent=") {
                            parent = p.parse().unwrap_or(0);
                        }
                        for m in ["failed", "killed", "dropped", "lost"] {
                            if k == m {
                                marker = m;
                            }
                        }
                    }
                    ev(format!(
                        r#"{{"e":"logrec","id":{},"level":"{}","parent":{},"marker":"{}"}}"#,
                        r.id,
                        r.level.name().to_lowercase(),
                        parent,
                        marker
                    ));
                });
            }
        }
        _ => {
            if let Some(s) = stk.as_mut() {
                exec_op(op, &mut Ctx::S(s));
            } else {
                // After the Stakker is gone only handle drops make sense
                exec_op(op, &mut Ctx::D);
            }
        }
    }
}

// is_zombie() of every actor known so far, in aid order
fn zombie_report() {
    let mut v: Vec<(i64, bool)> = w(|w| w.refs.iter().map(|(k, a)| (*k, a.is_zombie())).collect());
    v.sort();
    for (aid, z) in v {
        ev(format!(r#"{{"e":"zombie","aid":{},"res":{}}}"#, aid, z));
    }
}

fn flush() {
    let lines = w(|w| std::mem::take(&mut w.out));
    let stdout = std::io::stdout();
    let mut lock = stdout.lock();
    for l in lines {
        let _ = writeln!(lock, "{}", l);
    }
    let _ = lock.flush();
}

fn clear_world() {
    // Drop everything outside of any World borrow (drops log events),
    // in key order (HashMap iteration order differs from process to process)
    let mut owns = w(|w| std::mem::take(&mut w.owns));
    let mut keys: Vec<i64> = owns.keys().cloned().collect();
    keys.sort();
    for k in keys {
        drop(owns.remove(&k));
    }
    let mut towns = w(|w| std::mem::take(&mut w.towns));
    let mut keys: Vec<i64> = towns.keys().cloned().collect();
    keys.sort();
    for k in keys {
        drop(towns.remove(&k));
    }
    let mut rets = w(|w| std::mem::take(&mut w.rets));
    let mut keys: Vec<i64> = rets.keys().cloned().collect();
    keys.sort();
    for k in keys {
        drop(rets.remove(&k));
    }
    let mut fwds = w(|w| std::mem::take(&mut w.fwds));
    let mut keys: Vec<i64> = fwds.keys().cloned().collect();
    keys.sort();
    for k in keys {
        drop(fwds.remove(&k));
    }
    let ps = w(|w| std::mem::take(&mut w.pslabs));
    let mut keys: Vec<i64> = ps.keys().cloned().collect();
    keys.sort();
    let mut ps = ps;
    for k in keys {
        ev(format!(r#"{{"e":"pslabdrop","aid":{}}}"#, k));
        drop(ps.remove(&k));
    }
    let mut refs = w(|w| std::mem::take(&mut w.refs));
    let mut keys: Vec<i64> = refs.keys().cloned().collect();
    keys.sort();
    for k in keys {
        drop(refs.remove(&k));
    }
    w(|w| w.timers.clear());
}

include!("../inc/resalloc.rs");

fn main() {
    // registered before the runtime's thread-locals: destroyed after them
    PARKED.with(|p| p.borrow_mut().reserve(1));
    let args: Vec<String> = std::env::args().collect();
    let path = &args[1];
    let mut from = 0usize;
    if args.len() >= 4 && args[2] == "--from" {
        from = args[3].parse().unwrap();
    }
    let text = std::fs::read_to_string(path).expect("cannot read cases");
    std::panic::set_hook(Box::new(|info| {
        let msg = if let Some(s) = info.payload().downcast_ref::<&str>() {
            s.to_string()
        } else if let Some(s) = info.payload().downcast_ref::<String>() {
            s.clone()
        } else {
            "unknown".to_string()
        };
        let loc = info
            .location()
            .map(|l| format!("{}:{}", l.file(), l.line()))
            .unwrap_or_default();
        let _ = PANIC_MSG.try_with(|p| {
            if let Ok(mut p) = p.try_borrow_mut() {
                if p.is_none() {
                    *p = Some(format!("{} @ {}", msg, loc));
                }
            }
        });
    }));

    // Far enough from the platform's zero that instants before the
    // start of a case can be represented
    let process_base = Instant::now() + Duration::from_secs(1_000_000);

    for (idx, line) in text.lines().enumerate() {
        if idx < from || line.trim().is_empty() {
            continue;
        }
        let case: Value = serde_json::from_str(line).expect("bad case json");
        w(|w| w.base = Some(process_base));
        ev(format!(
            r#"{{"e":"case","name":{},"idx":{},"props":{}}}"#,
            case["case"],
            idx,
            case.get("props").cloned().unwrap_or(serde_json::json!([]))
        ));
        set_alloc_residues(&case["bases"]);
        let mut stk = Some(Stakker::new(process_base));
        let d = stk.as_ref().unwrap().deferrer();
        w(|w| w.deferrer = Some(d));
        ev(r#"{"e":"new","t":[0,0]}"#.to_string());
        let ops = case["ops"].as_array().unwrap().clone();
        let unwind_stakker = case.get("unwind_stakker").and_then(|v| v.as_bool()).unwrap_or(false);
        let res = catch_unwind(AssertUnwindSafe(|| {
            // in some cases the frame that owns the Stakker is itself unwound by the panic:
            // the Stakker is then dropped while the thread is panicking
            struct StkGuard<'a>(&'a mut Option<Stakker>, bool);
            impl Drop for StkGuard<'_> {
                fn drop(&mut self) {
                    if self.1 && std::thread::panicking() && self.0.is_some() {
                        ev(r#"{"e":"dropstakker"}"#.to_string());
                        drop(self.0.take());
                        ev(r#"{"e":"droppedstakker"}"#.to_string());
                    }
                }
            }
            let guard = StkGuard(&mut stk, unwind_stakker);
            let stk = &mut *guard.0;
            for op in &ops {
                top_op(op, stk);
            }
            // End of case: release everything
            ev(r#"{"e":"endcase"}"#.to_string());
            clear_world();
            let leakcheck = stk.is_some() && case.get("acyclic").and_then(|v| v.as_bool()).unwrap_or(false);
            if let Some(s) = stk.as_mut() {
                // All handles are gone: let the resulting terminations run
                let t = s.now();
                ev(format!(r#"{{"e":"run","t":{},"idle":false}}"#, tj(t)));
                let r = s.run(t, false);
                ev(format!(r#"{{"e":"runend","ret":{},"now":{}}}"#, r, tj(s.now())));
            }
            if stk.is_some() {
                ev(r#"{"e":"dropstakker"}"#.to_string());
                drop(stk.take());
                ev(r#"{"e":"droppedstakker"}"#.to_string());
            }
            clear_world();
            let d = w(|w| w.deferrer.take());
            drop(d);
            // Closures deferred after the Stakker was dropped are stranded in
            // a process-wide queue (documented); a throw-away Stakker
            // releases them so that they do not leak into the next case
            ev(r#"{"e":"flush"}"#.to_string());
            drop(Stakker::new(process_base));
            let flushcheck = !case.get("noflushcheck").and_then(|v| v.as_bool()).unwrap_or(false);
            ev(format!(r#"{{"e":"end","leakcheck":{},"flushcheck":{}}}"#, leakcheck, flushcheck));
        }));
        if let Err(pl) = &res {
            if pl.is::<Boom>() {
                // Caught user panic: what is left is released in the normal
                // order; only at-most-once dropping / execution is judged
                let _ = PANIC_MSG.with(|p| p.borrow_mut().take());
                let res2 = catch_unwind(AssertUnwindSafe(|| {
                    w(|w| w.during = "teardown after caught panic".to_string());
                    clear_world();
                    if stk.is_some() {
                        ev(r#"{"e":"dropstakker"}"#.to_string());
                        drop(stk.take());
                        ev(r#"{"e":"droppedstakker"}"#.to_string());
                    }
                    clear_world();
                    let d = w(|w| w.deferrer.take());
                    drop(d);
                    ev(r#"{"e":"flush"}"#.to_string());
                    drop(Stakker::new(process_base));
                }));
                if res2.is_err() {
                    let msg = PANIC_MSG.with(|p| p.borrow_mut().take()).unwrap_or_default();
                    let msg = msg.replace('\\', "/").replace('"', "'");
                    ev(format!(
                        r#"{{"e":"panic","during":"teardown after caught panic","msg":"{}","harness":{}}}"#,
                        msg,
                        msg.starts_with("harness:") || msg.contains("seqdrv.rs")
                    ));
                }
                ev(r#"{"e":"end","leakcheck":false,"flushcheck":false}"#.to_string());
                flush();
                println!("{{\"e\":\"restart\",\"next\":{}}}", idx + 1);
                std::process::exit(3);
            }
        }
        if res.is_err() {
            let msg = PANIC_MSG.with(|p| p.borrow_mut().take()).unwrap_or_default();
            let during = W.with(|w| w.try_borrow().map(|w| w.during.clone()).unwrap_or_default());
            let msg = msg.replace('\\', "/").replace('"', "'");
            ev(format!(
                r#"{{"e":"panic","during":"{}","msg":"{}","harness":{}}}"#,
                during,
                msg,
                msg.starts_with("harness:") || msg.contains("seqdrv.rs")
            ));
            ev(r#"{"e":"end","leakcheck":false}"#.to_string());
            flush();
            // State of the runtime (and of its process-wide singletons)
            // is unknown after a panic: restart from the next case
            println!("{{\"e\":\"restart\",\"next\":{}}}", idx + 1);
            std::process::exit(3);
        }
        flush();
    }
}
