//! queue_diff: the flat (unsafe) FnOnceQueue and the boxed FnOnceQueue of
//! stakker compiled side by side from /repo's sources and driven with the
//! same operation sequences.  Emits an ndjson trace with the observable
//! behaviour of both and the flat queue's storage figures after every
//! operation (for validation against FlatQueue.tla).
//!
//! usage: queue_diff <cases.ndjson> | queue_diff --shapes
//! case: {"case":name,"ops":[["push",shape,id,nest],["pushbox",id],["exec"],["isempty"],["drop"]]}

#![allow(dead_code)]
#![allow(clippy::all)]

#[path = "/repo/src/queue/boxed.rs"]
mod boxed;
#[path = "/repo/src/queue/flat.rs"]
mod flat;

use serde_json::Value;
use std::cell::RefCell;
use std::rc::Rc;

type Log = Rc<RefCell<Vec<String>>>;

#[derive(Copy, Clone)]
struct A1;
#[derive(Copy, Clone)]
#[repr(align(2))]
struct A2;
#[derive(Copy, Clone)]
#[repr(align(4))]
struct A4;
#[derive(Copy, Clone)]
#[repr(align(8))]
struct A8;
#[derive(Copy, Clone)]
#[repr(align(16))]
struct A16;
#[derive(Copy, Clone)]
#[repr(align(32))]
struct A32;
#[derive(Copy, Clone)]
#[repr(align(64))]
struct A64;
#[derive(Copy, Clone)]
#[repr(align(128))]
struct A128;

struct Pad<A: Copy, const N: usize> {
    _a: [A; 0],
    seed: u8,
    d: [u8; N],
}
impl<A: Copy, const N: usize> Pad<A, N> {
    #[inline(never)]
    fn new(seed: u8) -> Self {
        let mut d = [0u8; N];
        for (i, b) in d.iter_mut().enumerate() {
            *b = seed.wrapping_add((i as u8).wrapping_mul(31));
        }
        Pad { _a: [], seed, d }
    }
    #[inline(never)]
    fn ok(&self) -> bool {
        let addr = self as *const Self as usize;
        let mut ok = addr % std::mem::align_of::<A>() == 0;
        for (i, b) in self.d.iter().enumerate() {
            if *b != self.seed.wrapping_add((i as u8).wrapping_mul(31)) {
                ok = false;
            }
        }
        ok
    }
}

include!("../inc/qshapes.rs");

// Zero-sized captures: closures that are themselves zero-sized (with and
// without alignment) but still have to be dropped exactly once
thread_local! {
    static ZLOG: RefCell<Option<Log>> = const { RefCell::new(None) };
}
fn zlog(s: String) {
    ZLOG.with(|z| {
        if let Some(l) = z.borrow().as_ref() {
            l.borrow_mut().push(s);
        }
    });
}
struct Z1;
impl Drop for Z1 {
    fn drop(&mut self) {
        zlog(r#"{"e":"qdrop","id":-1}"#.to_string());
    }
}
#[repr(align(16))]
struct Z16;
impl Drop for Z16 {
    fn drop(&mut self) {
        zlog(r#"{"e":"qdrop","id":-16}"#.to_string());
    }
}
#[repr(align(128))]
struct Z128;
impl Drop for Z128 {
    fn drop(&mut self) {
        zlog(r#"{"e":"qdrop","id":-128}"#.to_string());
    }
}

// dropped-exactly-once token
struct Tok {
    id: i64,
    log: Log,
}
impl Drop for Tok {
    fn drop(&mut self) {
        self.log.borrow_mut().push(format!(r#"{{"e":"qdrop","id":{}}}"#, self.id));
    }
}

macro_rules! runner {
    ($name:ident, $q:ident, $flat:expr) => {
        mod $name {
            use super::*;
            pub struct Inner {
                pub log: Log,
            }
            pub struct Ctx {
                pub log: Log,
                pub q2: $q::FnOnceQueue<Inner>,
            }
            fn storage(_q: &$q::FnOnceQueue<Ctx>) -> String {
                #[allow(unused_mut)]
                let mut s = String::new();
                if $flat {
                    s = storage_flat(_q as *const _ as *const ());
                }
                s
            }
            pub fn run(case: &Value, log: &Log) {
                let mut q: Option<$q::FnOnceQueue<Ctx>> = Some($q::FnOnceQueue::new());
                let mut ctx = Ctx {
                    log: log.clone(),
                    q2: $q::FnOnceQueue::new(),
                };
                for op in case["ops"].as_array().unwrap() {
                    let name = op[0].as_str().unwrap();
                    match name {
                        "push" => {
                            let shape = op[1].as_i64().unwrap();
                            let id = op[2].as_i64().unwrap();
                            let nest = op[3].as_bool().unwrap_or(false);
                            let tok = Tok { id, log: log.clone() };
                            let seed = (id as u8).wrapping_mul(13);
                            if let Some(q) = q.as_mut() {
                                qshaped!(shape, seed, |pad| {
                                    let f = move |c: &mut Ctx| {
                                        let tok = tok; // capture the whole token, not just its id
                                        c.log.borrow_mut().push(format!(
                                            r#"{{"e":"qrun","id":{},"ok":{}}}"#,
                                            tok.id,
                                            pad.ok()
                                        ));
                                        if nest {
                                            // push onto another queue while executing
                                            let t2 = Tok { id: tok.id + 100000, log: c.log.clone() };
                                            c.q2.push(move |i: &mut Inner| {
                                                let t2 = t2;
                                                i.log.borrow_mut().push(format!(r#"{{"e":"qrun2","id":{}}}"#, t2.id));
                                            });
                                        }
                                    };
                                    log.borrow_mut().push(format!(
                                        r#"{{"e":"qpush","id":{},"shape":{},"size":{},"align":{}}}"#,
                                        id,
                                        shape,
                                        std::mem::size_of_val(&f),
                                        std::mem::align_of_val(&f)
                                    ));
                                    q.push(f);
                                });
                                log.borrow_mut().push(storage(q));
                            }
                        }
                        "pushz" => {
                            // zero-sized closure; kind: 1, 16 or 128 (alignment)
                            let kind = op[1].as_i64().unwrap();
                            if let Some(q) = q.as_mut() {
                                macro_rules! pz {
                                    ($z:expr, $id:expr) => {{
                                        let z = $z;
                                        let f = move |c: &mut Ctx| {
                                            let _z = &z;
                                            c.log.borrow_mut().push(format!(r#"{{"e":"qrun","id":{},"ok":true}}"#, $id));
                                        };
                                        log.borrow_mut().push(format!(
                                            r#"{{"e":"qpush","id":{},"shape":-1,"size":{},"align":{}}}"#,
                                            $id,
                                            std::mem::size_of_val(&f),
                                            std::mem::align_of_val(&f)
                                        ));
                                        q.push(f);
                                    }};
                                }
                                match kind {
                                    16 => pz!(Z16, -16),
                                    128 => pz!(Z128, -128),
                                    _ => pz!(Z1, -1),
                                }
                                log.borrow_mut().push(storage(q));
                            }
                        }
                        "pushbox" => {
                            let id = op[1].as_i64().unwrap();
                            let tok = Tok { id, log: log.clone() };
                            if let Some(q) = q.as_mut() {
                                log.borrow_mut().push(format!(r#"{{"e":"qpushbox","id":{}}}"#, id));
                                q.push_box(Box::new(move |c: &mut Ctx| {
                                    let tok = tok;
                                    c.log.borrow_mut().push(format!(r#"{{"e":"qrun","id":{},"ok":true}}"#, tok.id));
                                }));
                                log.borrow_mut().push(storage(q));
                            }
                        }
                        "exec" => {
                            if let Some(q) = q.as_mut() {
                                log.borrow_mut().push(r#"{"e":"qexec"}"#.to_string());
                                q.execute(&mut ctx);
                                log.borrow_mut().push(storage(q));
                                let mut inner = Inner { log: log.clone() };
                                ctx.q2.execute(&mut inner);
                                log.borrow_mut().push(r#"{"e":"qexecend"}"#.to_string());
                            }
                        }
                        "isempty" => {
                            if let Some(q) = q.as_ref() {
                                log.borrow_mut().push(format!(r#"{{"e":"qisempty","res":{}}}"#, q.is_empty()));
                            }
                        }
                        "drop" => {
                            log.borrow_mut().push(r#"{"e":"qdropq"}"#.to_string());
                            drop(q.take());
                            log.borrow_mut().push(r#"{"e":"qdroppedq"}"#.to_string());
                        }
                        other => panic!("harness: unknown op {}", other),
                    }
                }
                log.borrow_mut().push(r#"{"e":"qfinal"}"#.to_string());
                drop(q.take());
                drop(ctx);
                log.borrow_mut().push(r#"{"e":"qend"}"#.to_string());
            }
        }
    };
}

fn storage_flat(p: *const ()) -> String {
    // Safety: only called by the flat runner with a pointer to its queue
    let q = unsafe { &*(p as *const flat::FnOnceQueue<run_flat::Ctx>) };
    let (base, len, cap) = q.verif_storage();
    format!(r#"{{"e":"qst","base":{},"len":{},"cap":{}}}"#, base % 128, len, cap)
}

runner!(run_flat, flat, true);
runner!(run_boxed, boxed, false);

include!("../inc/resalloc.rs");

fn main() {
    let args: Vec<String> = std::env::args().collect();
    if args.len() >= 2 && args[1] == "--shapes" {
        // size/alignment of the closure type of each shape (as pushed)
        let log: Log = Rc::new(RefCell::new(Vec::new()));
        let mut out = Vec::new();
        for shape in 0..NQSHAPES {
            let tok = Tok { id: 0, log: log.clone() };
            qshaped!(shape, 0u8, |pad| {
                let nest = false;
                let f = move |c: &mut run_flat::Ctx| {
                    let tok = tok;
                    c.log.borrow_mut().push(format!("{} {}", tok.id, pad.ok()));
                    if nest {
                        let t2 = Tok { id: 1, log: c.log.clone() };
                        c.q2.push(move |i: &mut run_flat::Inner| {
                            let t2 = t2;
                            i.log.borrow_mut().push(format!("{}", t2.id));
                        });
                    }
                };
                out.push(format!("[{},{},{}]", shape, std::mem::size_of_val(&f), std::mem::align_of_val(&f)));
            });
        }
        println!("[{}]", out.join(","));
        return;
    }
    flat::FnOnceQueue::<run_flat::Ctx>::sanity_check();
    let text = std::fs::read_to_string(&args[1]).expect("cannot read cases");
    let mut from = 0usize;
    if args.len() >= 4 && args[2] == "--from" {
        from = args[3].parse().unwrap();
    }
    for (idx, line) in text.lines().enumerate() {
        if idx < from || line.trim().is_empty() {
            continue;
        }
        let case: Value = serde_json::from_str(line).expect("bad case json");
        println!(r#"{{"e":"qcase","name":{},"idx":{}}}"#, case["case"], idx);
        for which in ["flat", "boxed"] {
            // where the next buffers land modulo 128 (same sequence for both implementations)
            set_alloc_residues(&case["bases"]);
            let log: Log = Rc::new(RefCell::new(Vec::new()));
            ZLOG.with(|z| *z.borrow_mut() = Some(log.clone()));
            println!(r#"{{"e":"qimpl","which":"{}"}}"#, which);
            // flush eagerly: a crash inside the unsafe queue must not lose the prefix
            if which == "flat" {
                run_flat::run(&case, &log);
            } else {
                run_boxed::run(&case, &log);
            }
            ZLOG.with(|z| *z.borrow_mut() = None);
            for l in log.borrow().iter() {
                if !l.is_empty() {
                    println!("{}", l);
                }
            }
        }
        println!(r#"{{"e":"qcaseend"}}"#);
    }
}
