-------------------------------- MODULE Sync --------------------------------
(***************************************************************************)
(* Design specification of stakker's inter-thread code, structured like    *)
(* sync/waker.rs, sync/channel.rs, sync/thread.rs and Stakker::poll_wake / *)
(* process_waker_drops in core.rs.                                         *)
(*                                                                         *)
(* One action per scheduling point of the implementation: every atomic     *)
(* read-modify-write of the wake bitmap hierarchy (leaf word -> bitmap     *)
(* summary word -> poll-waker summary word), every mutex acquisition       *)
(* (drop list, channel buffer, PipedThread queues), every condvar wait /   *)
(* notify, every script step of a thread.  What follows a scheduling point *)
(* up to the next one happens in the same action, as in the code.          *)
(*                                                                         *)
(* Threads run scripts (wake / drop / send / recv ...); TLC explores all   *)
(* interleavings.  Every action emits the high-level events of the         *)
(* execution, which are folded through the ConcAbs monitor ("no            *)
(* violation" is the invariant: C11-C14), and the low-level records        *)
(* (thread, operation, word before) that the deterministic scheduler of    *)
(* the conformance harness records for the real code.                      *)
(*                                                                         *)
(* Memory orderings: each atomic site carries the ordering the code passes *)
(* (constants OrdSet, OrdDrain, read from the recorded trace).  Exploration*)
(* is over sequentially consistent interleavings; release/acquire          *)
(* visibility is tracked with per-thread views so that "everything written *)
(* before wake() is visible to the handler" is an invariant (Published).   *)
(***************************************************************************)
EXTENDS ConcAbs, Functions

CONSTANTS
  Kind,         \* "waker" | "channel" | "piped"
  WakerBits,    \* function: waker id -> slab bit index (for Kind = "waker")
  Scripts,      \* function: thread id (1..N) -> script (sequence of ops); Kind-specific
  MainScript,   \* script of the main thread (thread 0)
  HProg,        \* function: waker id -> [wake |-> actions, final |-> actions] run by its handler on the main
                \* thread, inside poll_wake (<<"drop", w>>, <<"wake", w>>, <<"poll">>); wakers not in its domain just log
  GDF,          \* channel cases: the Fwd target drops the ChannelGuard when it is handed its first message
  ChanRecheck,  \* does the channel's handler look at the closed flag again before each message of a batch?
                \* (FALSE: the pinned design, one look per batch; TRUE: the repaired one)
  CEcho,        \* channel cases: the Fwd target answers every message below 1000 through the same channel
  OrdSet,       \* ordering passed by BitMap::set's fetch_or   ("SeqCst", "AcqRel", "Release", "Acquire", "Relaxed")
  OrdDrain      \* ordering passed by Leaf::drain's swap

VARIABLES s, mon, bad, hist

vars == <<s, mon, bad, hist>>

WordBits == 64
BmSize == 4096
Threads == DOMAIN Scripts
AllThreads == {0} \cup Threads

BmOf(bit) == bit \div BmSize
SlotOfBm(bm) == bm % WordBits          \* bit of the poll-waker summary word announcing bitmap bm
WordOf(bit) == (bit % BmSize) \div WordBits
BitOf(bit) == bit % WordBits
BaseOf(bm) == bm * BmSize
IsBase(bit) == bit % BmSize = 0

Rel(o) == o \in {"SeqCst", "AcqRel", "Release"}
Acq(o) == o \in {"SeqCst", "AcqRel", "Acquire"}

ChanW == 1
CtlW == 7             \* optional control Waker of a channel case (created before the channel)
HasCtl == CtlW \in DOMAIN WakerBits
\* further plain Wakers of a channel / piped case (ordinary logging handlers)
PlainW == IF Kind = "waker" THEN DOMAIN WakerBits ELSE DOMAIN WakerBits \ {ChanW, CtlW}
MaxBm == IF DOMAIN WakerBits = {} THEN 0 ELSE BmOf(Max({WakerBits[w] : w \in DOMAIN WakerBits}))
\* slab index of the single Waker of a channel / piped thread (1 unless filler
\* wakers were created first: WakerBits then gives its index)
ChanBit == IF ChanW \in DOMAIN WakerBits THEN WakerBits[ChanW] ELSE 1

(* ------------------------------------------------------------------ *)
ThInit(t) ==
  [ pc |-> IF t = 0 THEN "ready" ELSE "begin", ip |-> 1,
    w |-> 0, bit |-> 0, lvl |-> "", ret |-> "",       \* bitmap set in progress
    todo |-> << >>, rv |-> << >>, drain |-> FALSE,     \* poll in progress (main)
    hq |-> << >>,                                       \* handler continuation (main)
    hact |-> << >>, hdel |-> FALSE, cur |-> 0,          \* rest of the running handler's program, its kind, its slot
    stk |-> << >>,                                      \* frames of poll_wake calls suspended by a re-entrant one

    v |-> 0, flag |-> FALSE, view |-> {} ]

SInit ==
  [ th |-> [t \in AllThreads |-> ThInit(t)],
    leaf |-> << >>,       \* <<bm, a>> -> set of bits  (absent = empty)
    summ |-> << >>,       \* bm -> set of word indices
    top |-> {},           \* set of bitmap slots
    rel |-> << >>,        \* location -> view released there
    notified |-> FALSE,
    handlers |-> IF Kind = "waker" THEN {WakerBits[w] : w \in DOMAIN WakerBits}
                 ELSE {ChanBit} \cup {WakerBits[w] : w \in DOMAIN WakerBits \ {ChanW}},
    wbit |-> IF Kind = "waker" THEN WakerBits
             ELSE (ChanW :> ChanBit) @@ [w \in DOMAIN WakerBits \ {ChanW} |-> WakerBits[w]],   \* live waker -> bit
    hid |-> IF Kind = "waker" THEN WakerBits
            ELSE (ChanW :> ChanBit) @@ [w \in PlainW |-> WakerBits[w]],    \* installed handler of waker -> bit
    free |-> << >>,       \* freed slab slots, most recent first
    nextBit |-> IF Kind = "waker" THEN Max({WakerBits[w] : w \in DOMAIN WakerBits}) + 1 ELSE ChanBit + 1,
    fq |-> << >>,
    nextW |-> 1000,
    dropList |-> << >>, mtx |-> << >>,     \* mutex name -> owner thread (absent = free)
    \* channel
    cq |-> << >>, copen |-> TRUE,
    \* piped thread
    psend |-> << >>, precv |-> << >>, cancel |-> FALSE, ppanic |-> "", cvn |-> {},   \* cvn: threads notified on the condvar
    written |-> {},       \* publication: plain writes done, as <<thread, n>>
    panicked |-> FALSE,   \* a runtime assertion of WakeHandlers fired (slot borrowed twice / deleted while borrowed)
    evs |-> << >>, lo |-> << >> ]

Init ==
  /\ s = SInit
  /\ mon = [CInit0({}) EXCEPT !.known = IF Kind = "waker" THEN DOMAIN WakerBits
                                          ELSE {ChanW} \cup (DOMAIN WakerBits \ {ChanW}),
                              !.piped = Kind = "piped"]
  /\ bad = {}
  /\ hist = [sched |-> << >>, lo |-> << >>, hi |-> << >>]

Emit(x, t, e) == [x EXCEPT !.evs = Append(@, e @@ [t |-> t])]
Lo(x, t, r) == [x EXCEPT !.lo = Append(@, r @@ [t |-> t])]

Script(t) == IF t = 0 THEN MainScript ELSE Scripts[t]

Get(f, k, dflt) == IF k \in DOMAIN f THEN f[k] ELSE dflt
Set(f, k, v) == IF k \in DOMAIN f THEN [f EXCEPT ![k] = v] ELSE f @@ (k :> v)

MFree(x, m) == m \notin DOMAIN x.mtx
MLock(x, t, m) == Lo([x EXCEPT !.mtx = @ @@ (m :> t)], t, [k |-> "lock", m |-> m])
MUnlock(x, t, m) == Lo([x EXCEPT !.mtx = [k \in DOMAIN @ \ {m} |-> @[k]]], t, [k |-> "unlock", m |-> m])

\* next script op of thread t, or the end of the thread
NextOp(x, t) ==
  LET ip == x.th[t].ip + 1 IN
  IF ip > Len(Script(t))
  THEN IF t = 0 THEN [x EXCEPT !.th[t].ip = ip, !.th[t].pc = "join"]
       ELSE IF Kind = "piped" THEN [Emit(x, t, [e |-> "wreturn"]) EXCEPT !.th[t].ip = ip, !.th[t].pc = "exit_dl", !.th[t].w = ChanW]
       ELSE Lo([x EXCEPT !.th[t].ip = ip, !.th[t].pc = "done"], t, [k |-> "end"])
  ELSE [x EXCEPT !.th[t].ip = ip, !.th[t].pc = "ready"]

(* ------------------------------------------------------------------ *)
(* BitMap::set, one atomic fetch_or per action                          *)
(* ------------------------------------------------------------------ *)
StartSet(x, t, bit, ret) ==
  [x EXCEPT !.th[t].bit = bit, !.th[t].lvl = "leaf", !.th[t].ret = ret, !.th[t].pc = "set"]

RECURSIVE ProcessRv(_), RunHActs(_)
\* what happens when the set returns
AfterSet(x, t) ==
  LET r == x.th[t].ret IN
  CASE r = "wake" -> NextOp(Emit(x, t, [e |-> "wake_end", w |-> x.th[t].w]), t)
    [] r = "drop" -> NextOp(Emit(MUnlock(x, t, "DL"), t, [e |-> "wdrop_end", w |-> x.th[t].w]), t)
    [] r = "send" ->   \* Channel::send: push under the lock, unlock, return true
         NextOp(Emit(MUnlock([x EXCEPT !.cq = Append(@, x.th[t].v)], t, "CH"), t,
                     [e |-> "send_end", v |-> x.th[t].v, res |-> TRUE]), t)
    [] r = "gdrop" ->  \* ChannelGuard drop: Waker dropped inside the buffer lock
         NextOp(Emit(MUnlock([MUnlock(x, t, "DL") EXCEPT !.cq = << >>], t, "CH"), t, [e |-> "guard_drop_end"]), t)
    [] r = "gdrop_f" -> \* the same from inside the Fwd target: the forwarding loop goes on (user code returns)
         [Emit(MUnlock([MUnlock(x, t, "DL") EXCEPT !.cq = << >>], t, "CH"), t, [e |-> "guard_drop_end"]) EXCEPT !.th[0].pc = "fwding"]
    [] r = "gdrop_h" -> \* the same from a handler: poll_wake goes on with the collected bits
         ProcessRv(Emit(MUnlock([MUnlock(x, t, "DL") EXCEPT !.cq = << >>, !.th[0].pc = "inpoll"], t, "CH"), t, [e |-> "guard_drop_end"]))
    [] r = "lsend" ->
         NextOp(Emit(x, t, [e |-> "lsend_end", v |-> x.th[t].v, res |-> ~x.th[t].flag]), t)
    [] r = "hsend" ->  \* the echo's wake is done: push under the lock, unlock, back to the forwarding loop
         [Emit(MUnlock([x EXCEPT !.cq = Append(@, x.th[0].v)], 0, "CH"), 0,
               [e |-> "send_end", v |-> x.th[0].v, res |-> TRUE]) EXCEPT !.th[0].pc = "fwding"]
    [] r = "hdrop" ->  \* Waker dropped by a handler: the handler's program goes on
         RunHActs(Emit(MUnlock([x EXCEPT !.th[0].pc = "inpoll"], 0, "DL"), 0, [e |-> "wdrop_end", w |-> x.th[0].w]))
    [] r = "hwake" ->
         RunHActs(Emit([x EXCEPT !.th[0].pc = "inpoll"], 0, [e |-> "wake_end", w |-> x.th[0].w]))
    [] r = "exit" ->   \* worker thread's Waker dropped: thread ends
         Lo([MUnlock(x, t, "DL") EXCEPT !.th[t].pc = "done"], t, [k |-> "end"])

SetStep(x, t) ==
  LET th == x.th[t]
      bm == BmOf(th.bit)
      a == WordOf(th.bit)
      b == BitOf(th.bit)
      loc == IF th.lvl = "leaf" THEN <<"leaf", bm, a>> ELSE IF th.lvl = "summ" THEN <<"summ", bm>> ELSE <<"top">>
      old == IF th.lvl = "leaf" THEN Get(x.leaf, <<bm, a>>, {})
             ELSE IF th.lvl = "summ" THEN Get(x.summ, bm, {}) ELSE x.top
      newbit == IF th.lvl = "leaf" THEN b ELSE IF th.lvl = "summ" THEN a ELSE SlotOfBm(bm)
      x1 == IF th.lvl = "leaf" THEN [x EXCEPT !.leaf = Set(@, <<bm, a>>, old \cup {newbit})]
            ELSE IF th.lvl = "summ" THEN [x EXCEPT !.summ = Set(@, bm, old \cup {newbit})]
            ELSE [x EXCEPT !.top = old \cup {newbit}]
      \* release/acquire view bookkeeping for this read-modify-write
      v1 == IF Acq(OrdSet) THEN th.view \cup Get(x.rel, loc, {}) ELSE th.view
      r1 == IF Rel(OrdSet) THEN Get(x.rel, loc, {}) \cup v1 ELSE Get(x.rel, loc, {})
      x2 == Lo([x1 EXCEPT !.th[t].view = v1, !.rel = Set(@, loc, r1)], t,
               [k |-> "at", op |-> "fetch_or", lvl |-> th.lvl, arg |-> {newbit}, old |-> old, ord |-> OrdSet])
  IN IF old # {} THEN AfterSet(x2, t)
     ELSE IF th.lvl = "leaf" THEN [x2 EXCEPT !.th[t].lvl = "summ"]
     ELSE IF th.lvl = "summ" THEN [x2 EXCEPT !.th[t].lvl = "top"]
     ELSE \* the poll-waker callback; returning from it is a scheduling point
          [Emit([x2 EXCEPT !.notified = TRUE], t, [e |-> "pollwaker"]) EXCEPT !.th[t].pc = "pw_ret"]

(* ------------------------------------------------------------------ *)
(* poll_wake on the main thread                                         *)
(* ------------------------------------------------------------------ *)
WakerOfBit(x, bit) == {w \in DOMAIN x.wbit : x.wbit[w] = bit}

\* run the handlers for the collected bits until one needs a lock (a
\* scheduling point) or the list is exhausted
EndPoll(x) ==
  LET x1 == Emit(x, 0, [e |-> "poll_end"]) IN
  IF x.th[0].stk # << >>
  THEN \* a re-entrant poll_wake returns into the handler that called it
       LET f == Head(x.th[0].stk) IN
       RunHActs([x1 EXCEPT !.th[0].stk = Tail(@), !.th[0].rv = f.rv, !.th[0].hact = f.hact, !.th[0].hdel = f.hdel,
                           !.th[0].hq = f.hq, !.th[0].cur = f.cur, !.th[0].todo = << >>])
  ELSE IF x.th[0].drain
  THEN \* the event loop polls again while it is being notified
       LET was == x1.notified
           x2 == Emit([x1 EXCEPT !.notified = FALSE], 0, [e |-> "pollcheck", notified |-> was])
       IN IF was THEN [Emit(x2, 0, [e |-> "poll_begin"]) EXCEPT !.th[0].pc = "swap_top"]
          ELSE [Emit(x2, 0, [e |-> "quiesce"]) EXCEPT !.th[0].pc = "finished"]
  ELSE NextOp(x1, 0)

\* slots whose handler is out of the slab because it is running (this poll or a suspended one)
Borrowed(x) == ({x.th[0].cur} \cup {x.th[0].stk[i].cur : i \in 1..Len(x.th[0].stk)}) \ {0}

\* handler ids: which user handler sits in a slab slot.  For Kind = "waker"
\* the handler of waker w logs handler(w, deleted); dropped wakers keep
\* their identity through `hid`.
ProcessRv(x) ==
  IF x.th[0].rv = << >> THEN EndPoll(x)
  ELSE LET bit == Head(x.th[0].rv)
           x1 == [x EXCEPT !.th[0].rv = Tail(@)]
       IN IF IsBase(bit)
          THEN \* reserved slot: process_waker_drops needs the drop-list lock
               [x1 EXCEPT !.th[0].pc = "take_dl"]
          ELSE IF bit \notin x.handlers THEN ProcessRv(x1)      \* slot vacant: ignored
          ELSE IF HasCtl /\ bit = WakerBits[CtlW]
          THEN \* control handler: drops the ChannelGuard from inside poll_wake
               [Emit(Emit(x1, 0, [e |-> "handler", w |-> CtlW, deleted |-> FALSE]), 0, [e |-> "guard_drop_begin"])
                  EXCEPT !.th[0].pc = "lock_ch", !.th[0].ret = "gdrop_h"]
          ELSE IF bit \in Borrowed(x)
          THEN \* handler_borrow finds the slot empty: "Wake handler has been borrowed from its slot twice"
               [Emit(x1, 0, [e |-> "panic", msg |-> "wake handler borrowed twice"]) EXCEPT !.panicked = TRUE, !.th[0].pc = "dead"]
          ELSE IF Kind = "waker" \/ \E w \in PlainW : w \in DOMAIN x.hid /\ x.hid[w] = bit
          THEN LET ws == {w \in DOMAIN x.hid : x.hid[w] = bit}
                   w == CHOOSE w \in ws : TRUE IN
               IF ws = {} THEN ProcessRv(x1)
               ELSE IF w \in DOMAIN HProg /\ HProg[w].wake # << >>
               THEN RunHActs([Emit(x1, 0, [e |-> "handler", w |-> w, deleted |-> FALSE])
                                EXCEPT !.th[0].hact = HProg[w].wake, !.th[0].hdel = FALSE, !.th[0].cur = bit])
               ELSE ProcessRv(Emit(x1, 0, [e |-> "handler", w |-> w, deleted |-> FALSE]))
          ELSE \* channel / piped handler: first takes its own lock
               [x1 EXCEPT !.th[0].pc = "hlock", !.th[0].flag = FALSE]

\* the deleted=true calls after the drop list was taken
RECURSIVE ProcessDel(_, _)
ProcessDel(x, bits) ==
  IF bits = << >> THEN ProcessRv(x)
  ELSE LET bit == Head(bits) IN
       IF IsBase(bit) \/ bit \notin x.handlers THEN ProcessDel(x, Tail(bits))
       ELSE IF bit \in Borrowed(x)
       THEN \* the slot of a running handler is removed under it: handler_restore will find it gone
            [Emit(x, 0, [e |-> "panic", msg |-> "wake handler slot deleted during handler call"]) EXCEPT !.panicked = TRUE, !.th[0].pc = "dead"]
       ELSE LET x1 == [x EXCEPT !.handlers = @ \ {bit}, !.free = <<bit>> \o @] IN
            IF Kind = "waker" \/ \E pw \in PlainW : pw \in DOMAIN x.hid /\ x.hid[pw] = bit
            THEN LET ws == {w \in DOMAIN x.hid : x.hid[w] = bit}
                     w == CHOOSE w \in ws : TRUE
                     x2 == Emit([x1 EXCEPT !.hid = [k \in DOMAIN @ \ {w} |-> @[k]]], 0,
                                [e |-> "handler", w |-> w, deleted |-> TRUE])
                 IN IF w \in DOMAIN HProg /\ HProg[w].final # << >>
                    THEN RunHActs([x2 EXCEPT !.th[0].hact = HProg[w].final, !.th[0].hdel = TRUE, !.th[0].hq = Tail(bits)])
                    ELSE ProcessDel(x2, Tail(bits))
            ELSE [x1 EXCEPT !.th[0].pc = "hlock", !.th[0].flag = TRUE, !.th[0].hq = Tail(bits)]

\* the rest of the running handler's program; then poll_wake / process_waker_drops goes on
RunHActs(x) ==
  LET th == x.th[0] IN
  IF th.hact = << >>
  THEN IF th.hdel THEN ProcessDel([x EXCEPT !.th[0].hdel = FALSE, !.th[0].cur = 0], th.hq)
       ELSE ProcessRv([x EXCEPT !.th[0].cur = 0])
  ELSE LET a == Head(th.hact)
           x1 == [x EXCEPT !.th[0].hact = Tail(@)] IN
       CASE a[1] = "drop" ->
              IF a[2] \notin DOMAIN x.wbit THEN RunHActs(Emit(x1, 0, [e |-> "nop"]))
              ELSE [Emit(x1, 0, [e |-> "wdrop_begin", w |-> a[2]]) EXCEPT !.th[0].w = a[2], !.th[0].pc = "lock_dl", !.th[0].ret = "hdrop"]
         [] a[1] = "wake" ->
              IF a[2] \notin DOMAIN x.wbit THEN RunHActs(Emit(x1, 0, [e |-> "nop"]))
              ELSE LET wr == <<0, 0>>
                       x2 == [x1 EXCEPT !.written = @ \cup {wr}, !.th[0].view = @ \cup {wr}, !.th[0].w = a[2]]
                   IN StartSet(Emit(x2, 0, [e |-> "wake_begin", w |-> a[2]]), 0, x.wbit[a[2]], "hwake")
         [] a[1] = "poll" ->
              \* Stakker::poll_wake called from inside a handler
              LET f == [rv |-> th.rv, hact |-> Tail(th.hact), hdel |-> th.hdel, hq |-> th.hq, cur |-> th.cur]
              IN [Emit(x1, 0, [e |-> "poll_begin"]) EXCEPT !.th[0].stk = <<f>> \o @, !.th[0].pc = "swap_top",
                                                          !.th[0].cur = 0, !.th[0].hact = << >>, !.th[0].hdel = FALSE]

DrainStep(x) ==
  LET th == x.th[0] IN
  IF th.pc = "swap_top"
  THEN LET old == x.top
           v1 == IF Acq(OrdDrain) THEN th.view \cup Get(x.rel, <<"top">>, {}) ELSE th.view
           \* every bitmap that exists in each announced slot is drained, in creation order
           bms == SetToSortSeq({bm \in 0..MaxBm : SlotOfBm(bm) \in old}, LAMBDA p, q : SlotOfBm(p) < SlotOfBm(q) \/ (SlotOfBm(p) = SlotOfBm(q) /\ p < q))
           x1 == Lo([x EXCEPT !.top = {}, !.th[0].view = v1,
                              !.th[0].todo = [i \in 1..Len(bms) |-> <<"summ", bms[i]>>],
                              !.th[0].rv = << >>, !.th[0].pc = "swap"], 0,
                    [k |-> "at", op |-> "swap", lvl |-> "top", arg |-> {}, old |-> old, ord |-> OrdDrain])
       IN IF old = {} THEN ProcessRv(x1) ELSE x1
  ELSE \* th.pc = "swap": next pending word
       LET h == Head(th.todo) IN
       IF h[1] = "summ"
       THEN LET bm == h[2]
                old == Get(x.summ, bm, {})
                v1 == IF Acq(OrdDrain) THEN th.view \cup Get(x.rel, <<"summ", bm>>, {}) ELSE th.view
                leaves == [i \in 1..Cardinality(old) |-> <<"leaf", bm, SetToSortSeq(old, <)[i]>>]
                x1 == Lo([x EXCEPT !.summ = Set(@, bm, {}), !.th[0].view = v1, !.th[0].todo = leaves \o Tail(th.todo)], 0,
                         [k |-> "at", op |-> "swap", lvl |-> "summ", arg |-> {}, old |-> old, ord |-> OrdDrain])
            IN IF x1.th[0].todo = << >> THEN ProcessRv(x1) ELSE x1
       ELSE LET bm == h[2]
                a == h[3]
                old == Get(x.leaf, <<bm, a>>, {})
                v1 == IF Acq(OrdDrain) THEN th.view \cup Get(x.rel, <<"leaf", bm, a>>, {}) ELSE th.view
                bits == [i \in 1..Cardinality(old) |-> BaseOf(bm) + a * WordBits + SetToSortSeq(old, <)[i]]
                x1 == Lo([x EXCEPT !.leaf = Set(@, <<bm, a>>, {}), !.th[0].view = v1, !.th[0].todo = Tail(th.todo),
                                   !.th[0].rv = @ \o bits], 0,
                         [k |-> "at", op |-> "swap", lvl |-> "leaf", arg |-> {}, old |-> old, ord |-> OrdDrain])
            IN IF x1.th[0].todo = << >> THEN ProcessRv(x1) ELSE x1

(* ------------------------------------------------------------------ *)
(* script steps                                                         *)
(* ------------------------------------------------------------------ *)
StepOp(x, t) ==
  LET op == Script(t)[x.th[t].ip] IN
  CASE op[1] = "wake" ->
         LET w == op[2] IN
         IF w \notin DOMAIN x.wbit THEN NextOp(Emit(x, t, [e |-> "nop"]), t)
         ELSE \* plain data written before wake(): must be visible to the handler
              LET wr == <<t, x.th[t].ip>>
                  x1 == [x EXCEPT !.written = @ \cup {wr}, !.th[t].view = @ \cup {wr}, !.th[t].w = w]
              IN StartSet(Emit(x1, t, [e |-> "wake_begin", w |-> w]), t, x.wbit[w], "wake")
    [] op[1] = "wakectl" ->
         LET wr == <<t, x.th[t].ip>>
             x1 == [x EXCEPT !.written = @ \cup {wr}, !.th[t].view = @ \cup {wr}, !.th[t].w = CtlW]
         IN StartSet(Emit(x1, t, [e |-> "wake_begin", w |-> CtlW]), t, WakerBits[CtlW], "wake")
    [] op[1] = "drop" ->
         LET w == op[2] IN
         IF w \notin DOMAIN x.wbit THEN NextOp(Emit(x, t, [e |-> "nop"]), t)
         ELSE [Emit(x, t, [e |-> "wdrop_begin", w |-> w]) EXCEPT !.th[t].w = w, !.th[t].pc = "lock_dl", !.th[t].ret = "drop"]
    [] op[1] = "create" ->
         LET w == x.nextW
             bit == IF x.free # << >> THEN Head(x.free) ELSE x.nextBit
             x1 == [x EXCEPT !.nextW = @ + 1, !.free = IF @ # << >> THEN Tail(@) ELSE @,
                             !.nextBit = IF x.free # << >> THEN @ ELSE @ + 1,
                             !.handlers = @ \cup {bit}, !.wbit = @ @@ (w :> bit), !.hid = @ @@ (w :> bit)]
         IN NextOp(Emit(x1, t, [e |-> "wcreate", w |-> w]), t)
    [] op[1] \in {"poll", "trypoll"} ->      \* trypoll: the event loop looks without waiting (other threads may be mid-way)
         LET was == x.notified
             x1 == Emit([x EXCEPT !.notified = FALSE], t, [e |-> "pollcheck", notified |-> was])
         IN IF was THEN [Emit(x1, t, [e |-> "poll_begin"]) EXCEPT !.th[t].pc = "swap_top", !.th[t].drain = FALSE]
            ELSE NextOp(x1, t)
    [] op[1] = "send" ->
         [Emit(x, t, [e |-> "send_begin", v |-> op[2]]) EXCEPT !.th[t].v = op[2], !.th[t].pc = "lock_ch", !.th[t].ret = "send"]
    [] op[1] = "isclosed" ->
         [Emit(x, t, [e |-> "isclosed_begin"]) EXCEPT !.th[t].pc = "lock_ch", !.th[t].ret = "isclosed"]
    [] op[1] = "dropguard" ->
         [Emit(x, t, [e |-> "guard_drop_begin"]) EXCEPT !.th[t].pc = "lock_ch", !.th[t].ret = "gdrop"]
    [] op[1] = "psend" ->
         [Emit(x, t, [e |-> "psend_begin", v |-> op[2]]) EXCEPT !.th[t].v = op[2], !.th[t].pc = "lock_q", !.th[t].ret = "psend"]
    [] op[1] = "pdrop" ->
         [Emit(x, t, [e |-> "pdrop_begin"]) EXCEPT !.th[t].pc = "lock_q", !.th[t].ret = "pdrop"]
    [] op[1] = "recv" ->
         [Emit(x, t, [e |-> "recv_begin"]) EXCEPT !.th[t].pc = "lock_q", !.th[t].ret = "recv"]
    [] op[1] = "lsend" ->
         [Emit(x, t, [e |-> "lsend_begin", v |-> op[2]]) EXCEPT !.th[t].v = op[2], !.th[t].pc = "lock_q", !.th[t].ret = "lsend"]
    [] op[1] = "cancel" ->
         [x EXCEPT !.th[t].pc = "lock_q", !.th[t].ret = "cancelq"]
    [] op[1] = "panic" ->
         \* unwinds to catch_unwind in the thread wrapper, which stores the text under the lock
         [Emit(x, t, [e |-> "wpanic", msg |-> op[2]]) EXCEPT !.th[t].pc = "lock_q", !.th[t].ret = "storepanic", !.th[t].v = op[2]]

\* recv's loop body, entered with the queue lock held
RecvCheck(x, t) ==
  IF ~x.cancel /\ x.psend = << >>
  THEN \* condvar wait: releases the lock
       [Lo(MUnlock(x, t, "Q"), t, [k |-> "cvwait"]) EXCEPT !.th[t].pc = "cvwait", !.cvn = @ \ {t}]
  ELSE IF x.cancel
  THEN NextOp(Emit(MUnlock(x, t, "Q"), t, [e |-> "recv_end", has |-> FALSE, v |-> 0]), t)
  ELSE NextOp(Emit(MUnlock([x EXCEPT !.psend = Tail(@)], t, "Q"), t,
                   [e |-> "recv_end", has |-> TRUE, v |-> Head(x.psend)]), t)

\* after acquiring a lock
Locked(x, t) ==
  LET r == x.th[t].ret IN
  CASE r = "drop" \/ r = "gdropdl" \/ r = "gdropdl_h" \/ r = "gdropdl_f" \/ r = "exit" \/ r = "hdrop" ->
         \* Waker::drop: push the id, then set the bitmap's reserved bit, all under the drop-list lock
         LET w == x.th[t].w
             bit == x.wbit[w]
             x1 == [x EXCEPT !.dropList = Append(@, bit), !.wbit = [k \in DOMAIN @ \ {w} |-> @[k]]]
         IN StartSet(x1, t, BaseOf(BmOf(bit)), IF r = "gdropdl" THEN "gdrop" ELSE IF r = "gdropdl_h" THEN "gdrop_h"
                                              ELSE IF r = "gdropdl_f" THEN "gdrop_f" ELSE r)
    [] r = "send" ->
         IF x.copen
         THEN IF x.cq = << >> THEN StartSet([x EXCEPT !.th[t].w = ChanW], t, ChanBit, "send")
              ELSE NextOp(Emit(MUnlock([x EXCEPT !.cq = Append(@, x.th[t].v)], t, "CH"), t,
                               [e |-> "send_end", v |-> x.th[t].v, res |-> TRUE]), t)
         ELSE NextOp(Emit(MUnlock(x, t, "CH"), t, [e |-> "send_end", v |-> x.th[t].v, res |-> FALSE]), t)
    [] r = "hsend" ->
         IF x.copen
         THEN IF x.cq = << >> THEN StartSet([x EXCEPT !.th[t].w = ChanW], t, ChanBit, "hsend")
              ELSE [Emit(MUnlock([x EXCEPT !.cq = Append(@, x.th[t].v)], t, "CH"), t,
                         [e |-> "send_end", v |-> x.th[t].v, res |-> TRUE]) EXCEPT !.th[0].pc = "fwding"]
         ELSE [Emit(MUnlock(x, t, "CH"), t, [e |-> "send_end", v |-> x.th[t].v, res |-> FALSE]) EXCEPT !.th[0].pc = "fwding"]
    [] r = "isclosed" ->
         NextOp(Emit(MUnlock(x, t, "CH"), t, [e |-> "isclosed", res |-> ~x.copen]), t)
    [] r = "gdrop" ->
         \* close(): waker.take() drops the Waker while the buffer lock is held
         IF x.copen THEN [x EXCEPT !.copen = FALSE, !.th[t].w = ChanW, !.th[t].pc = "lock_dl", !.th[t].ret = "gdropdl"]
         ELSE NextOp(Emit(MUnlock([x EXCEPT !.cq = << >>], t, "CH"), t, [e |-> "guard_drop_end"]), t)
    [] r = "gdrop_f" ->
         [x EXCEPT !.copen = FALSE, !.th[t].w = ChanW, !.th[t].pc = "lock_dl", !.th[t].ret = "gdropdl_f"]
    [] r = "gdrop_h" ->
         IF x.copen THEN [x EXCEPT !.copen = FALSE, !.th[t].w = ChanW, !.th[t].pc = "lock_dl", !.th[t].ret = "gdropdl_h"]
         ELSE ProcessRv(Emit(MUnlock([x EXCEPT !.cq = << >>, !.th[0].pc = "inpoll"], t, "CH"), t, [e |-> "guard_drop_end"]))
    [] r = "psend" ->
         LET empty == x.psend = << >>
             x1 == MUnlock([x EXCEPT !.psend = Append(@, x.th[t].v)], t, "Q")
         IN IF empty THEN [x1 EXCEPT !.th[t].pc = "notify", !.th[t].ret = "psend"]
            ELSE NextOp(Emit(x1, t, [e |-> "psend_end", v |-> x.th[t].v]), t)
    [] r = "pdrop" ->
         [MUnlock([x EXCEPT !.cancel = TRUE], t, "Q") EXCEPT !.th[t].pc = "notify", !.th[t].ret = "pdrop"]
    [] r = "recv" -> RecvCheck(x, t)
    [] r = "lsend" ->
         LET empty == x.precv = << >>
             x1 == MUnlock([x EXCEPT !.precv = Append(@, x.th[t].v), !.th[t].flag = x.cancel], t, "Q")
         IN IF empty THEN StartSet([x1 EXCEPT !.th[t].w = ChanW], t, ChanBit, "lsend")
            ELSE NextOp(Emit(x1, t, [e |-> "lsend_end", v |-> x.th[t].v, res |-> ~x.cancel]), t)
    [] r = "cancelq" ->
         NextOp(Emit(MUnlock(x, t, "Q"), t, [e |-> "cancelq", res |-> x.cancel]), t)
    [] r = "storepanic" ->
         [MUnlock([x EXCEPT !.ppanic = x.th[t].v], t, "Q") EXCEPT !.th[t].pc = "exit_dl", !.th[t].w = ChanW]

\* forwarding: each Fwd callback is user code; its return is a scheduling point
FwdNext(x) ==
  IF x.fq = << >>
  THEN IF x.th[0].flag THEN ProcessDel(x, x.th[0].hq) ELSE ProcessRv(x)
  ELSE IF ChanRecheck /\ Kind = "channel" /\ Head(x.fq).e = "fwd" /\ x.th[0].pc # "frechk_done"
  THEN \* the closed flag is read again (under the lock) before this message is handed over
       [x EXCEPT !.th[0].pc = "frechk"]
  ELSE LET ev == Head(x.fq)
           x1 == Emit([x EXCEPT !.fq = Tail(@), !.th[0].pc = "inpoll"], 0, ev)
       IN IF GDF /\ Kind = "channel" /\ ev.e = "fwd" /\ x.copen
          THEN \* the Fwd target closes the channel: ChannelGuard dropped between two messages of a batch
               [Emit(x1, 0, [e |-> "guard_drop_begin"]) EXCEPT !.th[0].pc = "lock_ch", !.th[0].ret = "gdrop_f"]
          ELSE IF CEcho /\ Kind = "channel" /\ ev.e = "fwd" /\ ev.v < 1000
          THEN \* Channel::send from the main thread, inside the forwarding loop (the buffer lock is free there)
               [Emit(x1, 0, [e |-> "send_begin", v |-> ev.v + 1000]) EXCEPT !.th[0].v = ev.v + 1000, !.th[0].pc = "lock_ch", !.th[0].ret = "hsend"]
          ELSE [x1 EXCEPT !.th[0].pc = "fwding"]

\* the channel / piped handler body once it holds its lock (main thread)
HandlerLocked(x) ==
  LET deleted == x.th[0].flag
  IN IF Kind = "channel"
     THEN LET msgs == x.cq
              x1 == MUnlock([x EXCEPT !.cq = << >>], 0, "CH")
              evs == IF x.copen THEN [i \in 1..Len(msgs) |-> [e |-> "fwd", v |-> msgs[i]]] ELSE << >>
          IN FwdNext([x1 EXCEPT !.fq = evs])
     ELSE LET msgs == x.precv
              pan == x.ppanic
              x1 == MUnlock([x EXCEPT !.precv = << >>, !.ppanic = IF deleted THEN "" ELSE @], 0, "Q")
              evs == [i \in 1..Len(msgs) |-> [e |-> "precv", v |-> msgs[i], panic |-> FALSE, msg |-> ""]]
                     \o (IF deleted THEN <<[e |-> "pterm", v |-> 0, panic |-> pan # "", msg |-> pan]>> ELSE << >>)
          IN FwdNext([x1 EXCEPT !.fq = evs])

(* ------------------------------------------------------------------ *)
EnabledW(x, t) ==
  LET pc == x.th[t].pc IN
  CASE pc = "ready" -> TRUE
    [] pc \in {"begin", "set", "pw_ret", "swap_top", "swap", "notify", "fwding"} -> TRUE
    [] pc = "lock_dl" \/ pc = "exit_dl" \/ pc = "take_dl" -> MFree(x, "DL")
    [] pc = "lock_ch" -> MFree(x, "CH")
    [] pc = "lock_q" -> MFree(x, "Q")
    [] pc = "hlock" -> MFree(x, IF Kind = "channel" THEN "CH" ELSE "Q")
    [] pc = "frechk" -> MFree(x, "CH")
    [] pc = "cvwait" -> t \in x.cvn /\ MFree(x, "Q")
    [] pc = "join" -> \A u \in Threads : x.th[u].pc = "done"
    [] OTHER -> FALSE

\* the event loop's poll is a blocking wait for the poll-waker; it times out
\* (and finds nothing) only when no other thread can make a step
Enabled(x, t) ==
  IF t = 0 /\ x.th[0].pc = "ready" /\ x.th[0].ip <= Len(MainScript) /\ MainScript[x.th[0].ip][1] = "poll"
  THEN x.notified \/ \A u \in Threads : ~EnabledW(x, u)
  ELSE EnabledW(x, t)

Do(x, t) ==
  LET pc == x.th[t].pc IN
  CASE pc = "begin" -> IF Script(t) = << >> THEN NextOp([Lo(x, t, [k |-> "begin"]) EXCEPT !.th[t].ip = 0], t)
                       ELSE [Lo(x, t, [k |-> "begin"]) EXCEPT !.th[t].pc = "ready"]
    [] pc = "ready" -> StepOp(x, t)
    [] pc = "set" -> SetStep(x, t)
    [] pc = "pw_ret" -> AfterSet(x, t)
    [] pc = "fwding" -> FwdNext([x EXCEPT !.th[0].pc = "inpoll"])
    [] pc = "swap_top" \/ pc = "swap" -> DrainStep(x)
    [] pc = "lock_dl" -> Locked(MLock(x, t, "DL"), t)
    [] pc = "exit_dl" -> Locked(MLock([x EXCEPT !.th[t].ret = "exit"], t, "DL"), t)
    [] pc = "lock_ch" -> Locked(MLock(x, t, "CH"), t)
    [] pc = "lock_q" -> Locked(MLock(x, t, "Q"), t)
    [] pc = "take_dl" ->
         LET bits == x.dropList
             x1 == MUnlock(MLock([x EXCEPT !.dropList = << >>], 0, "DL"), 0, "DL")
         IN ProcessDel([x1 EXCEPT !.th[0].pc = "inpoll"], bits)
    [] pc = "frechk" ->
         LET x1 == MUnlock(MLock(x, 0, "CH"), 0, "CH") IN
         IF x.copen THEN FwdNext([x1 EXCEPT !.th[0].pc = "frechk_done"])
         ELSE FwdNext([x1 EXCEPT !.fq = << >>, !.th[0].pc = "inpoll"])     \* closed meanwhile: the rest of the batch is discarded
    [] pc = "hlock" -> HandlerLocked(MLock([x EXCEPT !.th[0].pc = "inpoll"], 0, IF Kind = "channel" THEN "CH" ELSE "Q"))
    [] pc = "cvwait" -> \* re-acquires the mutex inside Condvar::wait (no separate lock record)
                        RecvCheck(Lo([x EXCEPT !.mtx = @ @@ ("Q" :> t)], t, [k |-> "cvwake"]), t)
    [] pc = "notify" ->
         LET waiters == {u \in AllThreads : x.th[u].pc = "cvwait"}
             x1 == Lo([x EXCEPT !.cvn = @ \cup waiters], t, [k |-> "notify", woke |-> Cardinality(waiters \ x.cvn)])
         IN IF x.th[t].ret = "psend" THEN NextOp(Emit(x1, t, [e |-> "psend_end", v |-> x.th[t].v]), t)
            ELSE NextOp(Emit(x1, t, [e |-> "pdrop_end"]), t)
    [] pc = "join" ->
         \* all other threads have finished; the event loop polls while notified
         LET x0 == Emit(x, 0, [e |-> "joined"])
             was == x0.notified
             x1 == Emit([x0 EXCEPT !.notified = FALSE], 0, [e |-> "pollcheck", notified |-> was])
         IN IF was THEN [Emit(x1, 0, [e |-> "poll_begin"]) EXCEPT !.th[0].pc = "swap_top", !.th[0].drain = TRUE]
            ELSE [Emit(x1, 0, [e |-> "quiesce"]) EXCEPT !.th[0].pc = "finished"]

Fold(m, evs, base) ==
  FoldSeq(LAMBDA e, acc : LET r == CApply(acc.st, e, acc.n) IN [st |-> r.st, bad |-> acc.bad \cup r.bad, n |-> acc.n + 1],
          [st |-> m, bad |-> {}, n |-> base], evs)

Next ==
  \E t \in AllThreads :
    /\ Enabled(s, t)
    /\ LET x == Do(s, t)
           \* within one action the low-level records precede the high-level events that follow them
           m1 == FoldSeq(LAMBDA rec, acc : IF rec.k = "at" THEN CApplyLo(acc, rec) ELSE acc, mon, x.lo)
           r == Fold(m1, x.evs, Len(hist.hi) + 1)
       IN /\ s' = [x EXCEPT !.evs = << >>, !.lo = << >>]
          /\ mon' = r.st
          /\ bad' = bad \cup r.bad
          /\ hist' = [sched |-> Append(hist.sched, t), lo |-> hist.lo \o x.lo, hi |-> hist.hi \o x.evs]

Spec == Init /\ [][Next]_vars

NoViolation == bad = {}
NoPanic == ~s.panicked

\* C11, second sentence: when a handler call serves a wake, the plain writes
\* the waking thread made before wake() are in the main thread's view.
\* (Checked at quiescence: every write of every completed wake is visible.)
Published ==
  s.th[0].pc = "finished" =>
     \A i \in 1..Len(mon.wakes) :
        (mon.wakes[i].ended /\ mon.wakes[i].served) =>
           \E wr \in s.th[0].view : wr[1] = mon.wakes[i].t

\* no thread is left blocked for ever: if nobody can move, everything finished
NoDeadlock ==
  (\A t \in AllThreads : ~Enabled(s, t)) =>
     (s.th[0].pc = "finished" /\ \A t \in Threads : s.th[t].pc = "done")

\* structural: a set leaf bit always has its summary bits set or a setter/drain in flight
View == <<s, mon, bad>>
=============================================================================
