SPECIFICATION Spec
CONSTANTS
  MaxOps = 4
  MaxTimers = 2
  AddOffsets <- AddOffsNear
  RunOffsets <- RunOffsNear
  Kinds <- FixedOnly
  ClampModMin = TRUE
INVARIANT NoViolation WindowInv SlotInv ExportInv
VIEW View
CHECK_DEADLOCK FALSE
