SPECIFICATION Spec
CONSTANTS
  MaxOps = 7
  MaxTimers = 5
  AddOffsets <- AddOffsSame
  RunOffsets <- RunOffsSame
  Kinds <- FixedOnly
  ClampModMin = TRUE
INVARIANT NoViolation WindowInv SlotInv ExportInv
VIEW View
CHECK_DEADLOCK FALSE
