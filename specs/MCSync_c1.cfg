SPECIFICATION Spec
CONSTANTS
  Kind = "channel"
  WakerBits <- NoWakers
  Scripts <- S_c1
  MainScript <- M_c1
  OrdSet = "SeqCst"
  OrdDrain = "SeqCst"
INVARIANT NoViolation Published NoDeadlock
VIEW View
CHECK_DEADLOCK FALSE
