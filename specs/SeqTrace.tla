------------------------------ MODULE SeqTrace ------------------------------
(* Trace validation: fold the abstract monitor SeqAbs!Apply over a trace   *)
(* recorded from the real code (ndjson, env TRACE).  The trace is accepted *)
(* when every line was consumed; violations are collected per property and *)
(* printed as one JSON line by the post-condition.                         *)
EXTENDS SeqAbs, Json, IOUtils

Rec == ndJsonDeserialize(IOEnv.TRACE)

VARIABLES l, st, viol
vars == <<l, st, viol>>

TInit == l = 1 /\ st = Init0({}) /\ viol = {}

TNext ==
  /\ l <= Len(Rec)
  /\ LET r == Apply(st, Rec[l]) IN
       /\ st' = r.st
       \* only the first violation of each property is kept (later ones may be knock-on, and an
       \* ever-growing set would make a badly broken implementation take for ever to report)
       /\ viol' = viol \cup {<<x[1], x[2], l>> : x \in {y \in r.bad : y[1] \notin {v[1] : v \in viol}}}
  /\ l' = l + 1

TSpec == TInit /\ [][TNext]_vars

\* Keep only the first violation per property (later ones may be knock-on)
First(p) == LET s == {v \in viol : v[1] = p}
                m == Min({v[3] : v \in s})
            IN CHOOSE v \in s : v[3] = m

Accepted ==
  /\ TLCGet("stats").diameter = Len(Rec) + 1
  /\ PrintT(<<"VERDICT", ToJson([lines |-> Len(Rec),
        violations |-> {[prop |-> p, why |-> First(p)[2], line |-> First(p)[3]] : p \in {v[1] : v \in viol}}])>>)

\* TLC evaluates POSTCONDITION in the initial-state context; violations are
\* therefore exported from a state constraint on the last state instead.
Done == l = Len(Rec) + 1
Report ==
  Done => PrintT(<<"VERDICT", ToJson([lines |-> Len(Rec),
        violations |-> {[prop |-> p, why |-> First(p)[2], line |-> First(p)[3]] : p \in {v[1] : v \in viol}}])>>)
ReportInv == Report

Consumed == TLCGet("stats").diameter = Len(Rec) + 1
=============================================================================
