SPECIFICATION Spec
CONSTANTS
  MaxItems = 7
  MaxActors = 2
  MaxOwners = 3
  MaxRets = 2
  MaxTop = 7
  MaxBody = 2
  TopOps <- Ops_ATopAll
  BodyOps <- Ops_ABody
  MethOps <- Ops_AMethAll
  LogLevels = {"open", "error"}
  RunTimes = {0, 1, 3}
INVARIANT NoViolation ExportInv
CHECK_DEADLOCK FALSE
