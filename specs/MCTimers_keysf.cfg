SPECIFICATION Spec
CONSTANTS
  MaxOps = 5
  MaxTimers = 3
  AddOffsets <- AddOffsKeys1
  RunOffsets <- RunOffsKeys
  Kinds <- FixedOnly
  ClampModMin = TRUE
INVARIANT NoViolation WindowInv SlotInv ExportInv
VIEW View
CHECK_DEADLOCK FALSE
