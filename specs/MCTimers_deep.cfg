SPECIFICATION Spec
CONSTANTS
  MaxOps = 5
  MaxTimers = 2
  AddOffsets <- AddOffs
  RunOffsets <- RunOffsSmall
  Kinds <- AllKinds
  ClampModMin = TRUE
INVARIANT NoViolation WindowInv SlotInv
VIEW View
CHECK_DEADLOCK FALSE
