------------------------------- MODULE MCCore -------------------------------
EXTENDS Core, Json

\* Export: one program per explored final state (all top-level ops used,
\* run loop idle).  The program is the script of every closure plus the
\* results chosen for Prep-style calls.
Final == d.pc \in {"top", "dead"} /\ (d.topn = MaxTop \/ d.pc = "dead")
ExportInv ==
  Final => PrintT(<<"CASE", ToJson([script |-> script, hist |-> hist, elog |-> elog])>>)

\* slab-focused export: only programs in which a slab child died next to a sibling
SlabInteresting ==
  \E a \in DOMAIN d.actors :
     /\ d.actors[a].slabOf # 0 /\ d.actors[a].bits = "zombie"
     /\ \E b \in DOMAIN d.actors : b # a /\ d.actors[b].slabOf = d.actors[a].slabOf
ExportInvS ==
  (Final /\ d.race) => PrintT(<<"CASE", ToJson([script |-> script, hist |-> hist, elog |-> elog])>>)

\* Ret-focused export: programs in which a ret_to!/ret_some_to! Ret was used or dropped
ExportInvR ==
  (Final /\ \E r \in DOMAIN d.rets : d.rets[r].kind # "plain" /\ d.rets[r].loc = "gone") =>
     PrintT(<<"CASE", ToJson([script |-> script, hist |-> hist, elog |-> elog])>>)

ExportInvF ==
  (Final /\ d.nextVal > 1) => PrintT(<<"CASE", ToJson([script |-> script, hist |-> hist, elog |-> elog])>>)

ExportInvP ==
  (Final /\ \E a \in DOMAIN d.actors : d.actors[a].pn # "" /\ d.actors[a].bits = "zombie") =>
     PrintT(<<"CASE", ToJson([script |-> script, hist |-> hist, elog |-> elog])>>)

Ops_All == {"defer", "lazy", "idle", "after", "acreate", "call", "pcall", "callown", "stop", "fail",
            "owndrop", "ownclone", "keepown", "kill", "mkret", "ret", "retdrop", "keepret", "zombie",
            "run", "dropstakker"}
Ops_Q == {"defer", "lazy", "idle", "after", "run", "dropstakker", "deferod", "lazyod"}
Ops_QBody == {"defer", "lazy", "idle", "after", "deferod"}
Ops_ATop == {"acreate", "call", "pcall", "owndrop", "kill", "run", "zombie", "dropstakker"}
Ops_ABody == {"defer", "call", "owndrop"}
Ops_OTop == {"acreate", "ownclone", "call", "owndrop", "run"}
Ops_OMeth == {"owndrop", "pcall", "ownclone"}
Ops_ATopAll == {"acreate", "call", "pcall", "callown", "owndrop", "ownclone", "kill", "run", "zombie", "dropstakker",
                "mkret", "ret", "retdrop", "defer"}
Ops_AMethAll == {"stop", "fail", "call", "pcall", "defer", "keepown", "owndrop", "ret", "retdrop", "keepret", "acreate"}
Ops_AMeth == {"stop", "fail", "call", "pcall", "defer"}
\* query!-focused: synchronous queries against every lifecycle state, mixed with queued calls and kills
Ops_YTop == {"acreate", "query", "apply", "call", "pcall", "kill", "owndrop", "run", "zombie"}
Ops_YBody == {"query", "apply", "defer"}
Ops_YMeth == {"stop", "fail", "call"}
\* ActorOwnSlab-focused: children created from methods, dying while the parent keeps adding
Ops_STop == {"acreate", "call", "owndrop", "kill", "run", "slablen"}
Ops_SBody == {"call"}
Ops_SMeth == {"screate", "stop", "fail", "call"}
\* Actor::defer-focused: deferring through actor references in every state and from the value's Drop
Ops_DTop == {"acreate", "call", "adefer", "owndrop", "kill", "run", "dropstakker"}
Ops_DBody == {"adefer"}
Ops_DMeth == {"vdefer", "adefer", "stop", "fail"}
\* Ret-focused: ret_to!/ret_some_to! Rets used, dropped, kept in actor state or carried by calls, against every lifecycle state
Ops_RTop == {"acreate", "mkret", "ret", "retdrop", "call", "pcall", "kill", "owndrop", "run"}
Ops_RBody == {"ret", "retdrop"}
Ops_RMeth == {"stop", "ret", "retdrop", "keepret", "mkret"}
\* Fwd-focused: fwd_to! Fwds used against every lifecycle state of the target, mixed with ordinary calls
Ops_FTop == {"acreate", "mkfwd", "fwd", "call", "kill", "owndrop", "run", "dropstakker"}
Ops_FBody == {"fwd", "call"}
Ops_FMeth == {"stop", "fwd", "call"}
\* kill!-focused: kills queued through an extra owner, racing with calls, owner drops and immediate kills
Ops_KTop == {"acreate", "dkill", "kill", "call", "owndrop", "run", "zombie"}
Ops_KBody == {"dkill", "call"}
Ops_KMeth == {"stop", "fail", "dkill"}
\* failure passed up: children whose notifier is ret_fail!/ret_failthru! of their parent
Ops_PTop == {"acreate", "call", "owndrop", "kill", "run", "slablen", "zombie"}
Ops_PBody == {"call"}
Ops_PMeth == {"acreate", "screate", "pnotify", "stop", "fail", "call"}
Ops_ATopY == Ops_ATopAll \cup {"query"}
Ops_ABodyY == Ops_ABody \cup {"query"}
=============================================================================
