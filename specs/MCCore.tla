------------------------------- MODULE MCCore -------------------------------
EXTENDS Core, Json

\* Export: one program per explored final state (all top-level ops used,
\* run loop idle).  The program is the script of every closure plus the
\* results chosen for Prep-style calls.
Final == d.pc \in {"top", "dead"} /\ (d.topn = MaxTop \/ d.pc = "dead")
ExportInv ==
  Final => PrintT(<<"CASE", ToJson([script |-> script, hist |-> hist, elog |-> elog])>>)

Ops_All == {"defer", "lazy", "idle", "after", "acreate", "call", "pcall", "callown", "stop", "fail",
            "owndrop", "ownclone", "keepown", "kill", "mkret", "ret", "retdrop", "keepret", "zombie",
            "run", "dropstakker"}
Ops_Q == {"defer", "lazy", "idle", "after", "run", "dropstakker", "deferod", "lazyod"}
Ops_QBody == {"defer", "lazy", "idle", "after", "deferod"}
Ops_ATop == {"acreate", "call", "pcall", "owndrop", "kill", "run", "zombie", "dropstakker"}
Ops_ABody == {"defer", "call", "owndrop"}
Ops_OTop == {"acreate", "ownclone", "call", "owndrop", "run"}
Ops_OMeth == {"owndrop", "pcall", "ownclone"}
Ops_ATopAll == {"acreate", "call", "pcall", "callown", "owndrop", "ownclone", "kill", "run", "zombie", "dropstakker",
                "mkret", "ret", "retdrop", "defer"}
Ops_AMethAll == {"stop", "fail", "call", "pcall", "defer", "keepown", "owndrop", "ret", "retdrop", "keepret", "acreate"}
Ops_AMeth == {"stop", "fail", "call", "pcall", "defer"}
=============================================================================
