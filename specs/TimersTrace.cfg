SPECIFICATION TSpec
CONSTANT ClampModMin = TRUE
INVARIANT ReportInv
POSTCONDITION Consumed
CHECK_DEADLOCK FALSE
