SPECIFICATION Spec
CONSTANTS
  MaxOps = 4
  MaxTimers = 2
  AddOffsets <- AddOffsWrap0
  RunOffsets <- RunOffsWrap0
  Kinds <- MaxFixedDflt
  ClampModMin = TRUE
INVARIANT NoViolation WindowInv SlotInv ExportInv
VIEW View
CHECK_DEADLOCK FALSE
