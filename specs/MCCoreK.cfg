SPECIFICATION Spec
CONSTANTS
  MaxItems = 5
  MaxActors = 1
  MaxOwners = 1
  MaxRets = 0
  MaxTop = 6
  MaxBody = 1
  TopOps <- Ops_KTop
  BodyOps <- Ops_KBody
  MethOps <- Ops_KMeth
  LogLevels = {}
  RunTimes = {1}
INVARIANT NoViolation ExportInv
VIEW View
CHECK_DEADLOCK FALSE
