SPECIFICATION Spec
CONSTANTS
  MaxItems = 4
  MaxActors = 1
  MaxOwners = 1
  MaxRets = 2
  MaxTop = 6
  MaxBody = 1
  TopOps <- Ops_FTop
  BodyOps <- Ops_FBody
  MethOps <- Ops_FMeth
  LogLevels = {}
  RunTimes = {1}
INVARIANT NoViolation ExportInvF
VIEW View
CHECK_DEADLOCK FALSE
