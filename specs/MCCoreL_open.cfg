SPECIFICATION Spec
CONSTANTS
  MaxItems = 4
  MaxActors = 1
  MaxOwners = 2
  MaxRets = 1
  MaxTop = 4
  MaxBody = 1
  TopOps <- Ops_ATopAll
  BodyOps <- Ops_ABody
  MethOps <- Ops_AMethAll
  LogLevels = {"open"}
  RunTimes = {1}
INVARIANT NoViolation
VIEW View
CHECK_DEADLOCK FALSE
