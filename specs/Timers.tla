------------------------------- MODULE Timers -------------------------------
(***************************************************************************)
(* Design specification of src/timers/mod.rs (with the part of core.rs     *)
(* that drives it) at the real constants of the implementation.            *)
(*                                                                         *)
(* Time is (secs << 16) | (nanos >> 14); TLC integers are 32-bit, so a     *)
(* Time is the pair <<secs, sub>> and all arithmetic is done on pairs.     *)
(* Structured like the code: one operator per Timers method, one recursion *)
(* step per iteration of the `advance` loop, the cyclic 32-bit WrapTime    *)
(* order, the slot table with generations and its LIFO free list.          *)
(* Every operation emits the events the harness records for it; they are   *)
(* folded through the abstract monitor (SeqAbs) and "no violation" is the  *)
(* invariant (C07, C08, C09, C10, C19).  WindowInv is the structural       *)
(* invariant the cyclic order rests on.                                    *)
(***************************************************************************)
EXTENDS TimersOps

CONSTANTS
  MaxOps,        \* number of API operations per behaviour
  MaxTimers,     \* timers created per behaviour
  AddOffsets,    \* durations <<s, ns>> added to / subtracted from now() to form expiry instants
  RunOffsets,    \* durations by which run() advances (or, negated, goes back)
  Kinds          \* subset of {"fixed", "max", "min"}

VARIABLES tm, mon, bad, hist

vars == <<tm, mon, bad, hist>>

Init ==
  /\ tm = TmInit
  /\ mon = [Init0({}) EXCEPT !.alive = "live"]
  /\ bad = {}
  /\ hist = << >>

Fold(m, evs) ==
  FoldSeq(LAMBDA e, acc : LET r == Apply(acc.st, e) IN [st |-> r.st, bad |-> acc.bad \cup r.bad],
          [st |-> m, bad |-> {}], evs)

Commit(s, op) ==
  LET s1 == Emit(s, NexpEv(s))
      r == Fold(mon, s1.evs) IN
  /\ tm' = [s1 EXCEPT !.evs = << >>, !.n = @ + 1,
                       \* operations that do not change the timer set (stale / Default keys, is_active) still
                       \* count as distinct behaviours: one representative of each is explored and exported
                       !.obs = IF op.op \in {"tupd", "tdel", "tact"}
                               THEN @ \cup {<<op.op, op.tid, IF "kind" \in DOMAIN op THEN op.kind ELSE "",
                                              IF "t" \in DOMAIN op THEN Lt(op.t, s.cnow) ELSE FALSE>>}
                               ELSE @]
  /\ mon' = r.st
  /\ bad' = bad \cup r.bad \cup (IF s.panicked THEN {<<"C08", "operation would panic / wrap (model)">>} ELSE {})
  /\ hist' = Append(hist, [op |-> op, evs |-> s1.evs])

VarTids(s) == {t \in DOMAIN s.keys : s.keys[t].ty \in {"max", "min"}}

Next ==
  /\ tm.n < MaxOps /\ ~tm.panicked
  /\ \/ \E kind \in Kinds \ {"dflt"}, dd \in AddOffsets, sign \in {1, -1} :
          /\ tm.nt < MaxTimers
          /\ LET inst == IF sign = 1 THEN InstPlus(tm.cnow, dd) ELSE InstMinus(tm.cnow, dd)
             IN Commit(DoAdd(tm, kind, inst), [op |-> "tadd", tid |-> tm.nt + 1, kind |-> kind, t |-> inst, item |-> tm.nid])
     \/ \E tid \in VarTids(tm), dd \in AddOffsets, sign \in {1, -1} :
          LET inst == IF sign = 1 THEN InstPlus(tm.cnow, dd) ELSE InstMinus(tm.cnow, dd)
          IN Commit(DoUpd(tm, tid, inst), [op |-> "tupd", tid |-> tid, t |-> inst])
     \/ \E tid \in DOMAIN tm.keys : Commit(DoDel(tm, tid), [op |-> "tdel", tid |-> tid])
     \* Default keys (slot 0, generation 0) never name a timer
     \/ \E kind \in Kinds, dd \in AddOffsets, sign \in {1, -1} :
          /\ "dflt" \in Kinds
          /\ kind # "dflt"
          /\ LET inst == IF sign = 1 THEN InstPlus(tm.cnow, dd) ELSE InstMinus(tm.cnow, dd) IN
             IF kind = "fixed"
             THEN Commit(Emit(Emit(tm, [e |-> "tdelb", tid |-> -1]), [e |-> "tdel", tid |-> -1, kind |-> "fixed", res |-> FALSE]),
                         [op |-> "tdel", tid |-> -1, kind |-> "fixed"])
             ELSE Commit(Emit(tm, [e |-> "tupd", tid |-> -1, kind |-> kind, t |-> inst, res |-> FALSE, now |-> tm.cnow]),
                         [op |-> "tupd", tid |-> -1, kind |-> kind, t |-> inst])
     \/ \E tid \in VarTids(tm) : Commit(DoAct(tm, tid), [op |-> "tact", tid |-> tid])
     \/ \E dd \in RunOffsets, sign \in {1, -1} :
          LET inst == IF sign = 1 THEN InstPlus(tm.cnow, dd) ELSE InstMinus(tm.cnow, dd)
          IN /\ inst[1] >= 0
             /\ Commit(DoRun(tm, inst), [op |-> "run", t |-> inst])

Spec == Init /\ [][Next]_vars

NoViolation == bad = {}

\* every queued key lies in (now, now + 0x7FFF s]: the cyclic order is total
WindowInv ==
  \A e \in tm.queue :
     LET t == WtTime(e.wt, tm.now) IN TLt(tm.now, t) /\ TLe(t, TAddSecs(tm.now, HS))

\* slot table: the free list links exactly the free slots; queue entries of
\* variable timers point to live slots whose `curr` is their key
SlotInv ==
  /\ \A e \in tm.queue : e.slot < FixedBase =>
        /\ e.slot + 1 <= Len(tm.var)
        /\ tm.var[e.slot + 1].kind # "free"
        /\ Wt(tm.var[e.slot + 1].curr) = e.wt
  /\ \A i \in 1..Len(tm.var) : tm.var[i].kind # "free" =>
        \E e \in tm.queue : e.slot = i - 1

View == <<tm, mon, bad>>
=============================================================================
