SPECIFICATION Spec
CONSTANTS
  MaxItems = 5
  MaxActors = 1
  MaxOwners = 2
  MaxRets = 1
  MaxTop = 5
  MaxBody = 1
  TopOps <- Ops_ATopAll
  BodyOps <- Ops_ABody
  MethOps <- Ops_AMethAll
  RunTimes = {1}
INVARIANT NoViolation
VIEW View
CHECK_DEADLOCK FALSE
