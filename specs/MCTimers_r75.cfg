SPECIFICATION Spec
CONSTANTS
  MaxOps = 4
  MaxTimers = 2
  AddOffsets <- AddOffsR75
  RunOffsets <- RunOffsR75
  Kinds <- FixedMin
  ClampModMin = TRUE
INVARIANT NoViolation WindowInv SlotInv ExportInv
VIEW View
CHECK_DEADLOCK FALSE
