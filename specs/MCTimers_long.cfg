SPECIFICATION Spec
CONSTANTS
  MaxOps = 3
  MaxTimers = 1
  AddOffsets <- AddOffsLong
  RunOffsets <- RunOffsLong
  Kinds <- AllKinds
  ClampModMin = TRUE
INVARIANT NoViolation WindowInv SlotInv ExportInv
VIEW View
CHECK_DEADLOCK FALSE
