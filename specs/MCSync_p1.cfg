SPECIFICATION Spec
CONSTANTS
  Kind = "piped"
  WakerBits <- NoWakers
  Scripts <- S_p1
  MainScript <- M_pp1
  OrdSet = "SeqCst"
  OrdDrain = "SeqCst"
INVARIANT NoViolation Published NoDeadlock
VIEW View
CHECK_DEADLOCK FALSE
