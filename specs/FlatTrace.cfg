SPECIFICATION TSpec
INVARIANT ReportInv
POSTCONDITION Consumed
CHECK_DEADLOCK FALSE
