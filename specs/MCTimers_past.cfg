SPECIFICATION Spec
CONSTANTS
  MaxOps = 5
  MaxTimers = 3
  AddOffsets <- AddOffsPast
  RunOffsets <- RunOffsPast
  Kinds <- FixedOnly
  ClampModMin = TRUE
INVARIANT NoViolation WindowInv SlotInv ExportInv
VIEW View
CHECK_DEADLOCK FALSE
