------------------------------ MODULE ConcTrace ------------------------------
(* Trace validation for the inter-thread code: fold the ConcAbs monitor over *)
(* the high-level events of a trace recorded under the deterministic         *)
(* scheduler (low-level records carry "k" instead of "e" and are skipped     *)
(* here; they are compared with the design spec's predictions separately).   *)
EXTENDS ConcAbs, Json, IOUtils

Rec == ndJsonDeserialize(IOEnv.TRACE)

VARIABLES l, st, viol
vars == <<l, st, viol>>

TInit == l = 1 /\ st = CInit0({}) /\ viol = {}

TNext ==
  /\ l <= Len(Rec)
  /\ IF "e" \in DOMAIN Rec[l]
     THEN LET r == CApply(st, Rec[l], l) IN
            /\ st' = r.st
            \* first violation of each property only (later ones may be knock-on; an ever-growing set is slow)
            /\ viol' = viol \cup {<<x[1], x[2], l>> : x \in {y \in r.bad : y[1] \notin {v[1] : v \in viol}}}
     ELSE /\ st' = CApplyLo(st, Rec[l])
          /\ UNCHANGED viol
  /\ l' = l + 1

TSpec == TInit /\ [][TNext]_vars

First(p) == LET s == {v \in viol : v[1] = p}
                m == Min({v[3] : v \in s})
            IN CHOOSE v \in s : v[3] = m

Done == l = Len(Rec) + 1
ReportInv ==
  Done => PrintT(<<"VERDICT", ToJson([lines |-> Len(Rec),
        violations |-> {[prop |-> p, why |-> First(p)[2], line |-> First(p)[3]] : p \in {v[1] : v \in viol}}])>>)

Consumed == TLCGet("stats").diameter = Len(Rec) + 1
=============================================================================
