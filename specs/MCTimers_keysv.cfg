SPECIFICATION Spec
CONSTANTS
  MaxOps = 4
  MaxTimers = 2
  AddOffsets <- AddOffsKeys1
  RunOffsets <- RunOffsKeys
  Kinds <- VarOnly
  ClampModMin = TRUE
INVARIANT NoViolation WindowInv SlotInv ExportInv
VIEW View
CHECK_DEADLOCK FALSE
