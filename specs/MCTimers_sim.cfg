SPECIFICATION Spec
CONSTANTS
  MaxOps = 9
  MaxTimers = 3
  AddOffsets <- AddOffs
  RunOffsets <- RunOffs
  Kinds <- AllKinds
  ClampModMin = TRUE
INVARIANT NoViolation WindowInv SlotInv ExportInv
CHECK_DEADLOCK FALSE
