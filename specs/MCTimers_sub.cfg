SPECIFICATION Spec
CONSTANTS
  MaxOps = 3
  MaxTimers = 2
  AddOffsets <- AddOffsSub
  RunOffsets <- RunOffsSub
  Kinds <- AllKinds
  ClampModMin = TRUE
INVARIANT NoViolation WindowInv SlotInv ExportInv
VIEW View
CHECK_DEADLOCK FALSE
