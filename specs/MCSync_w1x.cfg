SPECIFICATION Spec
CONSTANTS
  Kind = "waker"
  WakerBits <- WB_same
  Scripts <- S_w2
  MainScript <- M_p2
  OrdSet = "SeqCst"
  OrdDrain = "SeqCst"
INVARIANT NoViolation Published NoDeadlock ExportInv
CHECK_DEADLOCK FALSE
