SPECIFICATION Spec
CONSTANTS
  MaxItems = 5
  MaxActors = 1
  MaxOwners = 1
  MaxRets = 0
  MaxTop = 5
  MaxBody = 1
  TopOps <- Ops_YTop
  BodyOps <- Ops_YBody
  MethOps <- Ops_YMeth
  LogLevels = {}
  RunTimes = {1}
INVARIANT NoViolation ExportInv
VIEW View
CHECK_DEADLOCK FALSE
