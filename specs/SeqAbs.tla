------------------------------- MODULE SeqAbs -------------------------------
(***************************************************************************)
(* Abstract (API-level) specification of the single-threaded part of      *)
(* stakker: main/lazy/idle queues, timers, virtual time, actors, Ret/Fwd,  *)
(* owner slabs and Open/Close logging.                                     *)
(*                                                                         *)
(* The state is what the property statements C01-C10, C15, C16, C19, C20   *)
(* talk about.  The specification is written as a monitor: Apply(st, e)    *)
(* consumes one observable event e (an API call made, a closure executed,  *)
(* a value dropped, a result returned) and yields the next abstract state  *)
(* together with the set of <<property, reason>> pairs that the event      *)
(* violates.  It is used in two ways:                                      *)
(*   - SeqTrace.tla folds Apply over a trace recorded from the real code;  *)
(*   - the design specs (RunLoop.tla, Timers.tla, Actor.tla) emit the      *)
(*     same events from their actions and check "no violation" as an       *)
(*     invariant over all their behaviours.                                *)
(***************************************************************************)
EXTENDS TimePair, TLC, FiniteSets, FiniteSetsExt, SequencesExt, Functions

HSecs == 32767              \* fixed timers this far ahead are not ordered (C19)

B(c, p, m) == IF c THEN {<<p, m>>} ELSE {}

NoActor == 0

(* ------------------------------------------------------------------ *)
(* initial abstract state                                              *)
(* ------------------------------------------------------------------ *)
Init0(props) ==
  [ props   |-> props,       \* properties a panic in this case is charged to
    alive   |-> "none",      \* none | live | dropping | dead
    now     |-> <<0, 0>>,
    prev    |-> <<0, 0>>,
    inRun   |-> FALSE,
    runT    |-> <<0, 0>>,
    runIdle |-> FALSE,
    runAdv  |-> FALSE,
    nexec   |-> 0,           \* top-level items executed in this run
    depth   |-> 0,           \* nesting of executing items
    lastq   |-> "none",      \* queue of the last top-level item executed
    phase   |-> 1,           \* lazy phase counter
    mainQ   |-> << >>,       \* pending main-queue entries (records)
    lazyQ   |-> << >>,       \* pending lazy item ids
    idleQ   |-> << >>,       \* pending idle item ids
    items   |-> << >>,       \* id -> [q, s, aid, prep, tid]   (function, grows)
    tokdrop |-> {},          \* ids whose token has been dropped
    preRun  |-> {},          \* main item ids pending when run() was called
    timers  |-> << >>,       \* tid -> [kind, eff, setAt, s, item, ord]
    tord    |-> 0,
    fired   |-> << >>,       \* fixed timers fired in this run, in order
    deleting|-> 0,           \* tid being deleted right now (0: none)
    drainB  |-> 0,           \* iteration budget of a follow-next_expiry loop
    draining|-> FALSE,
    actors  |-> << >>,       \* aid -> record
    rets    |-> << >>,       \* rid -> [kind, aid, s, cbs]
    expcb   |-> << >>,       \* expected immediate Ret callbacks <<rid,has,val>>
    fwds    |-> << >>,       \* fid -> aid
    logOn   |-> FALSE,
    filter  |-> {},
    logrecs |-> << >>,       \* unclaimed log records
    logids  |-> {},          \* log ids handed out so far
    expLog  |-> << >>,       \* expected probe records
    dhq     |-> << >>,       \* queues of the items whose drop handlers are running
    runNo   |-> 0,           \* number of run() calls so far
    rstack  |-> << >>,       \* saved state of outer run() calls (run() re-entered from an idle item)
    applied |-> TRUE,        \* has this run's instant taken effect yet? (it does after the idle item)
    expArg  |-> 0,           \* a ret_some_to! Ret was just dropped unused: its closure (fixed arguments) goes now
    argdrop |-> {},          \* Rets whose fixed arguments (ret_to!/ret_some_to!) have been released
    preTop  |-> {},          \* items that existed when the current top-level item started executing
    mustDrop|-> {},          \* (after a caught panic) items the panicking top-level item had submitted: still the Stakker's
    oldgen  |-> {},          \* actors of an earlier Stakker of this case (see "renewed")
    boomed  |-> FALSE,       \* a panic made by user code inside run() was caught by the caller
    panicked|-> FALSE
  ]

Has(f, k) == k \in DOMAIN f
Put(f, k, v) == IF k \in DOMAIN f THEN [f EXCEPT ![k] = v] ELSE f @@ (k :> v)

RemoveId(seq, id) == SelectSeq(seq, LAMBDA x : x # id)
IdxOf(seq, P(_)) == IF \E i \in 1..Len(seq) : P(seq[i])
                    THEN CHOOSE i \in 1..Len(seq) : P(seq[i]) /\ \A j \in 1..(i-1) : ~P(seq[j])
                    ELSE 0

(* ------------------------------------------------------------------ *)
(* timers                                                              *)
(* ------------------------------------------------------------------ *)
Deadline(tm) == TMax(tm.eff, tm.setAt)
\* Timer states: p pending, q expired by this run's time advance and queued for
\* execution (no longer reachable through its key), f fired, d deleted.
\* Between the advance at the start of a run and the execution of the callback
\* the abstract state cannot tell p from q: "maybe expired".
MaybeExpired(st, t) ==
    LET tm == st.timers[t] IN
    tm.s = "p" /\ st.inRun /\ st.runAdv /\ Le(tm.eff, st.now) /\ tm.touch # st.runNo
Pending(st) == {t \in DOMAIN st.timers : st.timers[t].s = "p" /\ ~MaybeExpired(st, t)}
MaybePending(st) == {t \in DOMAIN st.timers : st.timers[t].s = "p" /\ MaybeExpired(st, t)}
Unfired(st) == {t \in DOMAIN st.timers : st.timers[t].s \in {"p", "q"}}
Short(tm) == Lt(tm.eff, AddSecs(tm.setAt, HSecs))

\* Upper bound on the iterations a follow-next_expiry loop may need for one timer
IterBound(st, tm) ==
    LET span == SubSat(tm.eff, st.now)[1] IN 2 * (span \div HSecs) + 24

NexpBad(st, has, x) ==
    LET P == Pending(st)
        M == MaybePending(st) IN
       B((P # {} /\ ~has) \/ (P \cup M = {} /\ has), "C09", "next_expiry None/Some disagrees with pending timers")
    \cup (IF has THEN
            B(~Lt(st.now, x), "C09", "next_expiry not after now")
       \cup B(\E t \in P : Lt(AddNs(Deadline(st.timers[t]), TickNs), x),
              "C09", "next_expiry later than earliest deadline + 1 step")
       \cup B(P = {} /\ M # {} /\ \A t \in M : Lt(AddNs(Deadline(st.timers[t]), TickNs), x),
              "C09", "next_expiry later than earliest deadline + 1 step")
          ELSE {})

(* ------------------------------------------------------------------ *)
(* actors                                                              *)
(* ------------------------------------------------------------------ *)
NewActor(parent, slab, logid) ==
  [ s |-> "prep", own |-> 1, dying |-> "", issued |-> {}, notified |-> FALSE,
    cause |-> "", vdropped |-> FALSE, hasval |-> FALSE, held |-> << >>,
    running |-> 0, parent |-> parent, slabOf |-> IF slab THEN parent ELSE 0,
    slab |-> {}, logid |-> logid, closed |-> FALSE,
    pn |-> "" ]      \* notifier also wired to the parent: "fail" (ret_fail!), "failthru" (ret_failthru!)

AState(st, aid) == IF Has(st.actors, aid) THEN st.actors[aid].s ELSE "none"

\* Entry kinds in mainQ / held lists:
\*   item    plain closure                      (visible: x event)
\*   call    actor call (prep or ready)         (visible: x event with aid)
\*   term    terminate(Dropped) after last owner drop (visible only if it acts)
\*   retcall delivery of a ret_to!/ret_some_to! (visible: rcall event)
\*   fwdcall delivery through fwd_to!           (visible: fcall event)
\*   slabrm  removal of a terminated child from its parent's slab (silent)
Entry(k, id, aid, prep, tag) ==
  [k |-> k, id |-> id, aid |-> aid, prep |-> prep, tag |-> tag,
   has |-> FALSE, val |-> 0, child |-> 0, grp |-> 0, code |-> ""]

ReadyKind(en) == en.k \in {"retcall", "fwdcall", "slabrm"} \/ (en.k = "call" /\ ~en.prep)

\* What silently happens to entry en when it reaches the front of the main queue
\*   "hold"  : ready-style call for an actor still in Prep: moved to its held list
\*   "gone"  : consumed without any observable event
\*   "stay"  : must produce an observable event (not skippable)
Fate(st, en) ==
  CASE en.k = "item" -> "stay"
    [] en.k = "mark" -> "gone"
    [] en.k \in {"term", "dkill"} -> IF AState(st, en.aid) = "zombie" THEN "gone" ELSE "stay"
    [] en.k = "failcall" ->      \* delivery of a ret_fail!/ret_failthru! Ret: an apply that fails the target
         IF AState(st, en.aid) = "prep" THEN "hold" ELSE IF AState(st, en.aid) = "zombie" THEN "gone" ELSE "stay"
    [] en.k = "slabrm" -> IF AState(st, en.aid) = "prep" THEN "hold" ELSE "gone"
    [] en.k = "retcall" /\ en.prep ->     \* Ret aimed at a Prep-style function: runs only in Prep, else a no-op
         IF AState(st, en.aid) = "prep" THEN "stay" ELSE "gone"
    [] en.k \in {"retcall", "fwdcall"} ->
         IF AState(st, en.aid) = "prep" THEN "hold"
         ELSE IF AState(st, en.aid) = "zombie" THEN "gone" ELSE "stay"
    [] en.k = "call" ->
         IF ~en.prep /\ AState(st, en.aid) = "prep" THEN "hold" ELSE "stay"
    [] OTHER -> "stay"

\* Apply the silent effects of the entries in `pre` (all "hold"/"gone") and
\* continue with main queue `rest`
Consume(st, pre, rest) ==
  LET HeldFor(a) == SelectSeq(pre, LAMBDA en : Fate(st, en) = "hold" /\ en.aid = a)
      Rm(a) == {x.child : x \in {y \in {pre[i] : i \in 1..Len(pre)} : y.k = "slabrm" /\ y.aid = a /\ Fate(st, y) = "gone"}}
      acts == [a \in DOMAIN st.actors |->
                 [st.actors[a] EXCEPT !.held = @ \o HeldFor(a), !.slab = @ \ Rm(a)]]
  IN [st EXCEPT !.mainQ = rest, !.actors = acts]

SkipEffects(st, n) == Consume(st, SubSeq(st.mainQ, 1, n), SubSeq(st.mainQ, n + 1, Len(st.mainQ)))

\* Length of the longest prefix of mainQ that is consumed silently
SilentPrefix(st) ==
  LET n == Len(st.mainQ)
      bad == {i \in 1..n : Fate(st, st.mainQ[i]) = "stay"}
  IN IF bad = {} THEN n ELSE Min(bad) - 1

Settle(st) == SkipEffects(st, SilentPrefix(st))

\* Bring the entry matching P to the front: everything before it must be
\* silently consumable.  Returns [st, ok, en]
ToFront(st, P(_)) ==
  LET i == IdxOf(st.mainQ, P) IN
  IF i = 0 THEN [st |-> st, found |-> FALSE, ok |-> FALSE, en |-> Entry("none", 0, 0, FALSE, 0)]
  ELSE LET en == st.mainQ[i]
           pre == SubSeq(st.mainQ, 1, i - 1)
           \* owner drops made by one value drop (slab children) have no defined
           \* mutual order: such sibling terminations may be passed over
           Sib(x) == x.k = "term" /\ en.k = "term" /\ x.grp # 0 /\ x.grp = en.grp
           keep == SelectSeq(pre, LAMBDA x : Fate(st, x) = "stay" /\ Sib(x))
           gone == SelectSeq(pre, LAMBDA x : Fate(st, x) # "stay")
           ok == \A j \in 1..(i-1) : Fate(st, pre[j]) # "stay" \/ Sib(pre[j])
           rest == keep \o SubSeq(st.mainQ, i + 1, Len(st.mainQ))
       IN [st |-> Consume(st, gone, rest), found |-> TRUE, ok |-> ok, en |-> en]

\* An actor whose Prep->Ready flush is still owed visible held calls
Flushing(st) == {a \in DOMAIN st.actors :
                   st.actors[a].s = "ready" /\ st.actors[a].held # << >>}

\* Silently consume held entries at the head of a ready/zombie actor's held list
HeldSilent(st, a, en) ==
  IF st.actors[a].s = "ready" THEN en.k = "slabrm"
  ELSE en.k \in {"slabrm", "retcall", "fwdcall", "term"}   \* zombie: dropped silently

SettleHeld(st, a) ==
  LET h == st.actors[a].held
      n == Len(h)
      stop == {i \in 1..n : ~HeldSilent(st, a, h[i])}
      k == IF stop = {} THEN n ELSE Min(stop) - 1
      rm == {h[i].child : i \in {j \in 1..k : h[j].k = "slabrm"}}
  IN [st EXCEPT !.actors[a].held = SubSeq(h, k + 1, n),
                !.actors[a].slab = IF st.actors[a].s = "ready" THEN @ \ rm ELSE @]

\* Make an actor a Zombie with the given cause (if it is not one already)
Terminate(st, aid, cause) ==
  IF AState(st, aid) = "zombie" \/ ~Has(st.actors, aid) THEN st
  ELSE [st EXCEPT !.actors[aid].s = "zombie", !.actors[aid].cause = cause]

\* A termination by owner drop that takes effect now (vdrop/notify seen for a
\* live actor): the term entry must be pending and reachable
ImplicitDropTerm(st, aid) ==
  LET f == ToFront(st, LAMBDA en : en.k \in {"term", "dkill", "failcall"} /\ en.aid = aid) IN
  IF f.found /\ f.en.k = "failcall"
  THEN \* a child's end reaches its parent through ret_fail!/ret_failthru!: the parent fails
       LET c == "failed:" \o f.en.code IN
       [st |-> [Terminate(f.st, aid, c) EXCEPT !.actors[aid].issued = @ \cup {c}],
        bad |-> B(~f.ok, "C02", "failure passed on by a child's notifier overtook earlier queued calls")]
  ELSE IF f.found /\ f.en.k = "dkill"
  THEN \* a kill queued by kill! takes effect: the owner it kept for the purpose goes with it
       LET c == "killed:" \o f.en.code IN
       [st |-> [Terminate(f.st, aid, c) EXCEPT !.actors[aid].own = @ - 1],
        bad |-> B(~f.ok, "C03", "queued kill overtook earlier queued calls")]
  ELSE IF f.found
  THEN [st |-> Terminate(f.st, aid, "dropped"),
        bad |-> B(~f.ok, "C04", "Dropped termination overtook earlier queued calls")
                \cup B(f.st.actors[aid].s = "ready" /\ \E i \in 1..Len(f.st.actors[aid].held) : f.st.actors[aid].held[i].k = "call",
                       "C04", "Dropped termination overtook calls made earlier (still held from Prep)")]
  ELSE [st |-> Terminate(st, aid, "dropped"),
        bad |-> {<<"C04", "actor terminated as Dropped although no last-owner drop is pending">>,
                 <<"C16", "actor state released although an owning reference still exists">>,
                 <<"C03", "actor terminated as Dropped although no such termination request was issued">>}]

LevelAllowed(st, lvl) == st.logOn /\ lvl \in st.filter

SevOrder == <<"trace", "debug", "info", "warn", "error">>
FilterOf(levels) ==
  UNION {
    IF l \in {"open", "close"} THEN {"open", "close"}
    ELSE IF l = "audit" THEN {"audit"}
    ELSE IF l = "off" THEN {}
    ELSE {SevOrder[j] : j \in {i \in 1..5 : i >= (CHOOSE k \in 1..5 : SevOrder[k] = l)}}
    : l \in levels }

(* ------------------------------------------------------------------ *)
(* the monitor                                                         *)
(* ------------------------------------------------------------------ *)
R(st, bad) == [st |-> st, bad |-> bad]

Tag(st) == IF st.lastq = "lazy" THEN st.phase ELSE 0

AppendMain(st, en) ==
  IF st.alive = "dead" THEN st ELSE [st EXCEPT !.mainQ = Append(@, en)]

\* The instant passed to run() takes effect after the idle item (if one runs): the main queue is swapped
\* out, time advances, expired timer callbacks are appended behind what was queued (the mark)
ApplyPend(st) ==
  IF st.applied THEN st
  ELSE LET adv == Lt(st.now, st.runT) IN
       [st EXCEPT !.applied = TRUE, !.prev = st.now, !.now = TMax(st.now, st.runT), !.runAdv = adv,
                  !.preRun = {st.mainQ[i].id : i \in {j \in 1..Len(st.mainQ) : st.mainQ[j].k \in {"item", "call"}}},
                  !.mainQ = IF adv THEN Append(SelectSeq(@, LAMBDA en : en.k # "mark"), Entry("mark", 0, 0, FALSE, 0))
                            ELSE SelectSeq(@, LAMBDA en : en.k # "mark")]

\* ---- submissions
ApplySub(st, e) ==
  LET id == e.item
      isCall == "aid" \in DOMAIN e
      aid == IF isCall THEN e.aid ELSE 0
      prep == IF isCall THEN e.prep ELSE FALSE
      \* Submitting once the Stakker's own Drop has completed is the documented
      \* exclusion: after `droppedstakker`, or while the Stakker's fields (lazy,
      \* idle and timer queues) are being dropped, which is after its drain loop.
      void == st.alive = "dead" \/
              (st.alive = "dropping" /\ st.dhq # << >> /\ st.dhq[Len(st.dhq)] \in {"lazy", "idle", "timer"})
      rec == [q |-> IF void THEN "void" ELSE e.q, s |-> "p",
              aid |-> aid, prep |-> prep, tid |-> 0,
              hr |-> IF "hr" \in DOMAIN e THEN {e.hr[i] : i \in 1..Len(e.hr)} ELSE {}]
      s1 == [st EXCEPT !.items = Put(@, id, rec)]
      dup == B(Has(st.items, id), "C01", "harness: duplicate item id")
  IN IF void THEN R(s1, dup)
     ELSE IF e.q = "main"
     THEN R([s1 EXCEPT !.mainQ = Append(@, Entry(IF isCall THEN "call" ELSE "item",
                                                   id, aid, prep, Tag(st)))], dup)
     ELSE IF e.q = "lazy" THEN R([s1 EXCEPT !.lazyQ = Append(@, id)], dup)
     ELSE R([s1 EXCEPT !.idleQ = Append(@, id)], dup)

\* ---- execution of an item
NowBad(st, e, q) ==
  IF q = "idle" \/ (st.depth > 0 /\ st.lastq = "idle")
  THEN B(e.now # st.now /\ e.now # st.prev /\ e.now # TMax(st.now, st.runT), "C15", "idle item saw a time that is neither previous nor current now")
  ELSE B(e.now # st.now, "C15", "item observed now() different from the greatest instant passed in")

TimerExec(st, e, it) ==
  LET tid == it.tid
      tm == st.timers[tid]
      \* everything queued before run() precedes the expired callbacks: it has run, is held or was a no-op
      mi == IdxOf(st.mainQ, LAMBDA en : en.k = "mark")
      pre == SubSeq(st.mainQ, 1, IF mi = 0 THEN 0 ELSE mi - 1)
      pendPre == {j \in 1..Len(pre) : Fate(st, pre[j]) = "stay"}
      stc == IF mi = 0 THEN st
             ELSE Consume(st, SelectSeq(pre, LAMBDA en : Fate(st, en) # "stay"),
                          SelectSeq(pre, LAMBDA en : Fate(st, en) = "stay") \o SubSeq(st.mainQ, mi, Len(st.mainQ)))
      fixedShort == tm.kind = "fixed" /\ Short(tm)
      ordBad == IF fixedShort THEN
                  B(\E j \in 1..Len(st.fired) :
                       LET y == st.timers[st.fired[j]] IN
                          Le(AddNs(AddNs(Deadline(tm), TickNs), TickNs), Deadline(y)),
                    "C19", "fixed timers fired out of deadline order")
                  \cup
                  B(\E j \in 1..Len(st.fired) :
                       LET y == st.timers[st.fired[j]] IN
                          y.eff = tm.eff /\ y.setAt = tm.setAt /\ tm.ord < y.ord,
                    "C19", "fixed timers with identical instant fired out of creation order")
                ELSE {}
      bad ==    B(tm.s = "d", "C10", "deleted timer fired")
           \cup B(tm.s = "q" /\ tm.touch # st.runNo, "C08", "expired timer not executed in the run that expired it")
           \cup B(tm.s = "f", "C08", "timer fired twice")
           \cup B(~st.inRun, "C07", "timer callback ran outside run()")
           \cup B(st.inRun /\ ~st.runAdv, "C15", "timers evaluated although time did not advance")
           \cup B(Lt(st.now, tm.eff), "C07", "timer fired before its effective expiry")
           \cup B(pendPre # {}, "C19", "timer callback ran before calls queued before run()")
           \cup B(\E j \in pendPre : pre[j].k \in {"call", "retcall", "fwdcall"}, "C02",
                  "a timer's call overtook actor calls that were made (queued) before it")
           \cup B(\E j \in pendPre : pre[j].k = "item", "C01",
                  "a timer callback overtook main-queue closures submitted before run()")
           \cup ordBad
      s1 == [stc EXCEPT !.timers[tid].s = "f",
                        !.fired = IF fixedShort THEN Append(@, tid) ELSE @]
  IN R(s1, bad)

ApplyX(st00, e) ==
  LET id == e.item IN
  IF ~Has(st00.items, id) THEN R(st00, {<<"C01", "unknown item executed">>}) ELSE
  LET st == IF st00.inRun /\ st00.depth = 0 /\ st00.items[id].q # "idle" THEN ApplyPend(st00) ELSE st00
      it == st.items[id]
      top == st.depth = 0
      twice == B(it.s # "p", IF it.q = "timer" THEN "C08" ELSE "C01", "closure executed twice or after being dropped")
      dead == B(st.alive # "live", "C01", "closure executed while/after the Stakker is dropped")
      isCall == it.aid # 0
      \* C02 gating
      gate == IF isCall THEN
                 B(it.prep /\ AState(st, it.aid) # "prep", "C02", "Prep-style call executed outside Prep")
            \cup B(~it.prep /\ AState(st, it.aid) # "ready", "C02", "Ready method executed while actor not Ready")
            \cup B(Has(st.actors, it.aid) /\ st.actors[it.aid].running > 0, "C03", "actor method re-entered while running")
              ELSE {}
      \* flush discipline: held calls of an actor that just became Ready come first
      fl == Flushing(st)
      flushBad == B(fl # {} /\ ~(isCall /\ it.aid \in fl /\ ~it.prep /\
                        st.actors[it.aid].held # << >> /\ st.actors[it.aid].held[1].id = id /\
                        st.actors[it.aid].held[1].k = "call"),
                    "C02", "held Prep-time calls not flushed first, in order, on becoming Ready")
      mark(s) == [s EXCEPT !.items[id].s = "x", !.depth = @ + 1,
                           !.preTop = IF st.depth = 0 THEN DOMAIN st.items ELSE @,
                           !.actors = IF isCall /\ Has(s.actors, it.aid)
                                      THEN [s.actors EXCEPT ![it.aid].running = @ + 1] ELSE s.actors]
  IN
  IF isCall /\ ~it.prep /\ Has(st.actors, it.aid) /\ st.actors[it.aid].held # << >>
     /\ st.actors[it.aid].held[1].k = "call" /\ st.actors[it.aid].held[1].id = id
  THEN \* flush of a held call (nested inside the call that made the actor Ready)
       LET s1 == [st EXCEPT !.actors[it.aid].held = Tail(@)]
           s2 == SettleHeld(s1, it.aid)
       IN R(mark(s2), twice \cup dead \cup gate \cup NowBad(st, e, "main")
                       \cup B(~st.inRun, "C02", "held call ran outside run()"))
  ELSE IF it.q = "main" THEN
       LET f == ToFront(st, LAMBDA en : en.k \in {"item", "call"} /\ en.id = id)
           s1 == [f.st EXCEPT !.nexec = IF top THEN @ + 1 ELSE @,
                              !.lastq = IF top THEN "main" ELSE @,
                              !.phase = IF top THEN @ + 1 ELSE @]
           ordp == IF isCall THEN "C02" ELSE "C01"
       IN R(mark(s1), twice \cup dead \cup gate \cup flushBad \cup NowBad(st, e, "main")
              \cup B(~f.found, "C01", "executed closure was not pending in the main queue")
              \cup B(f.found /\ ~f.ok, ordp, "main-queue call executed out of submission order")
              \cup B(~st.inRun, "C01", "main-queue closure ran outside run()"))
  ELSE IF it.q = "lazy" THEN
       LET s0 == Settle(st)
           pendTags == {s0.mainQ[i].tag : i \in 1..Len(s0.mainQ)}
           s1 == [s0 EXCEPT !.lazyQ = RemoveId(@, id), !.nexec = @ + 1, !.lastq = "lazy"]
       IN R(mark(s1), twice \cup dead \cup gate \cup flushBad \cup NowBad(st, e, "lazy")
              \cup B(st.lazyQ = << >> \/ Head(st.lazyQ) # id, "C06", "lazy items ran out of submission order")
              \cup B(pendTags \ {st.phase} # {}, "C06", "lazy item started while an unrelated main-queue item was pending")
              \cup B(~st.inRun, "C06", "lazy item ran outside run()"))
  ELSE IF it.q = "idle" THEN
       LET s1 == [st EXCEPT !.idleQ = RemoveId(@, id), !.nexec = @ + 1, !.lastq = "idle"]
       IN R(mark(s1), twice \cup dead \cup gate \cup NowBad(st, e, "idle")
              \cup B(st.idleQ = << >> \/ Head(st.idleQ) # id, "C06", "idle items ran out of submission order")
              \cup B(~st.inRun \/ ~st.runIdle, "C06", "idle item ran although run was not called with idle=true")
              \cup B(st.inRun /\ st.nexec # 0, "C06", "idle item was not the first thing run() did / more than one idle item"))
  ELSE IF it.q = "timer" THEN
       LET r == TimerExec(st, e, it)
           s1 == [r.st EXCEPT !.nexec = IF top THEN @ + 1 ELSE @,
                              !.lastq = IF top THEN "main" ELSE @,
                              !.phase = IF top THEN @ + 1 ELSE @]
       IN R(mark(s1), r.bad \cup twice \cup dead \cup gate \cup flushBad \cup NowBad(st, e, "main"))
  ELSE IF it.q \in {"direct", "query"} THEN
       R(mark(st), twice \cup dead \cup gate \cup NowBad(st, e, "main"))
  ELSE R(mark(st), dead \cup B(it.q = "void", "C01", "closure submitted after Stakker drop was executed"))

\* end of an item's execution; for actor calls the lifecycle step follows
ApplyXE(st, e) ==
  LET id == e.item IN
  IF ~Has(st.items, id) THEN R(st, {}) ELSE
  LET it == st.items[id]
      s1a == [st EXCEPT !.items[id].s = "r", !.depth = IF @ > 0 THEN @ - 1 ELSE 0]
      s1 == IF s1a.inRun /\ s1a.depth = 0 /\ it.q = "idle" THEN ApplyPend(s1a) ELSE s1a
  IN IF it.aid = 0 \/ ~Has(st.actors, it.aid) THEN R(s1, {}) ELSE
     LET a == st.actors[it.aid]
         s2 == [s1 EXCEPT !.actors[it.aid].running = IF @ > 0 THEN @ - 1 ELSE 0]
     IN IF a.dying # "" /\ a.s # "zombie"
        THEN R([Terminate(s2, it.aid, a.dying) EXCEPT !.actors[it.aid].dying = ""], {})
        ELSE IF it.prep /\ "some" \in DOMAIN e /\ e.some /\ a.s = "prep"
        THEN R(SettleHeld([s2 EXCEPT !.actors[it.aid].s = "ready", !.actors[it.aid].hasval = TRUE],
                          it.aid), {})
        ELSE R(s2, {})

\* ---- a token (closure captures / message) was dropped
ApplyDrop1(st, e) ==
  LET id == e.item IN
  \* (a token of an unknown item is a stray of an earlier Stakker of this process)
  IF ~Has(st.items, id) THEN R(st, {}) ELSE
  LET it == st.items[id]
      twice == B(id \in st.tokdrop, "C16", "value handed to the runtime dropped twice")
      s0 == [st EXCEPT !.tokdrop = @ \cup {id}]
  IN IF e.ran THEN R(s0, twice \cup B(it.s = "p", "C16", "token reports ran but item never executed"))
     ELSE
     LET s1 == [s0 EXCEPT !.items[id].s = "d"]
         early == B(it.s # "p", "C16", "closure dropped un-run after it had started")
         isCall == it.aid # 0
         tgt == AState(st, it.aid)
         inHeld == isCall /\ Has(st.actors, it.aid) /\
                   \E i \in 1..Len(st.actors[it.aid].held) : st.actors[it.aid].held[i].id = id /\ st.actors[it.aid].held[i].k = "call"
     IN
     IF st.alive # "live" THEN
        \* Stakker being dropped / gone: everything pending is released un-run
        R([s1 EXCEPT !.mainQ = SelectSeq(@, LAMBDA en : ~(en.k \in {"item","call"} /\ en.id = id)),
                     !.lazyQ = RemoveId(@, id), !.idleQ = RemoveId(@, id),
                     !.actors = [a \in DOMAIN s1.actors |->
                                   [s1.actors[a] EXCEPT !.held = SelectSeq(@, LAMBDA en : ~(en.k = "call" /\ en.id = id))]]],
          twice \cup early)
     ELSE IF it.q = "void" THEN R(s1, twice)
     ELSE IF it.q = "timer" THEN
        IF st.deleting = it.tid /\ it.tid # 0 THEN R(s1, twice \cup early)
        ELSE IF isCall /\ it.s = "x" THEN R(s1, twice)
        ELSE R(s1, twice \cup early \cup {<<"C08", "pending timer's closure dropped without firing or deletion">>})
     ELSE IF inHeld THEN
        \* held for a Prep actor: may only be discarded when the actor terminates
        R([s1 EXCEPT !.actors[it.aid].held = SelectSeq(@, LAMBDA en : ~(en.k = "call" /\ en.id = id))],
          twice \cup early \cup B(tgt # "zombie", "C02", "held call discarded although its actor has not terminated"))
     ELSE IF isCall /\ it.q = "main" THEN
        LET f == ToFront(st, LAMBDA en : en.k = "call" /\ en.id = id)
            legit == IF it.prep THEN tgt # "prep" ELSE tgt = "zombie"
        IN R([f.st EXCEPT !.tokdrop = @ \cup {id}, !.items[id].s = "d"],
             twice \cup early
             \cup B(~f.found, "C02", "discarded call was not pending")
             \cup B(f.found /\ ~f.ok, "C02", "call discarded before reaching the front of the queue")
             \cup B(~legit, "C02", "call discarded although its target could have executed it"))
     ELSE IF isCall THEN
        \* direct apply on a Zombie / query on anything but a Ready actor: discarded on the spot
        R(s1, twice \cup early \cup B(IF it.q = "query" THEN tgt = "ready" ELSE tgt # "zombie",
                                      "C02", "call discarded although its target could have executed it"))
     ELSE
        R([s1 EXCEPT !.mainQ = SelectSeq(@, LAMBDA en : ~(en.k = "item" /\ en.id = id)),
                     !.lazyQ = RemoveId(@, id), !.idleQ = RemoveId(@, id)],
          twice \cup early
          \cup B(it.q = "main", "C01", "pending main-queue closure dropped without running")
          \cup B(it.q \in {"lazy", "idle"}, "C06", "pending lazy/idle closure dropped without running"))

\* A termination by owner drop of an actor still in Prep is first seen through
\* the discard of the calls held for it (it has no value to drop)
ApplyDrop(st, e) ==
  LET id == e.item IN
  IF ~e.ran /\ Has(st.items, id) /\ st.alive = "live" /\ st.items[id].aid # 0
     /\ ~st.items[id].prep /\ st.items[id].q # "query" /\ AState(st, st.items[id].aid) = "prep"
     /\ \E i \in 1..Len(st.mainQ) : st.mainQ[i].k \in {"term", "dkill"} /\ st.mainQ[i].aid = st.items[id].aid
  THEN LET r0 == ImplicitDropTerm(st, st.items[id].aid)
           r1 == ApplyDrop1(r0.st, e)
       IN R(r1.st, r0.bad \cup r1.bad)
  ELSE ApplyDrop1(st, e)

\* ---- run
ApplyRun(st0, e) ==
  LET t == e.t
      \* run() may legitimately be re-entered from the idle item, which executes before the queues are swapped out
      nested == st0.inRun
      frame == [runT |-> st0.runT, runIdle |-> st0.runIdle, runAdv |-> st0.runAdv, nexec |-> st0.nexec, depth |-> st0.depth,
                lastq |-> st0.lastq, fired |-> st0.fired, preRun |-> st0.preRun, prev |-> st0.prev, runNo |-> st0.runNo,
                applied |-> st0.applied]
      st == IF nested THEN [st0 EXCEPT !.rstack = Append(@, frame), !.depth = 0] ELSE st0
      s0 == [st EXCEPT !.inRun = TRUE, !.runT = t, !.runIdle = e.idle, !.runAdv = FALSE, !.nexec = 0,
                       !.lastq = "none", !.fired = << >>, !.runNo = @ + 1, !.applied = FALSE, !.preRun = {},
                       !.mainQ = SelectSeq(@, LAMBDA en : en.k # "mark")]
      \* without an idle item to run first the instant takes effect at once
      s1 == IF e.idle /\ st.idleQ # << >> THEN s0 ELSE ApplyPend(s0)
  IN R(s1, B(nested /\ ~(st0.depth > 0 /\ st0.lastq = "idle"), "C06", "harness: run() re-entered from something other than the idle item"))

LeftoverBad(st) ==
  UNION { LET en == st.mainQ[i] IN
            CASE en.k \in {"item"} -> {<<"C01", "main-queue closure not executed by the end of run()">>}
              [] en.k = "call" -> {<<"C02", "actor call neither executed nor discarded by the end of run()">>,
                                   <<"C01", "main-queue closure not executed by the end of run()">>}
              [] en.k = "term" -> {<<"C04", "actor not terminated (Dropped) by the end of the run after its last owner was dropped">>,
                                   <<"C16", "actor state not released after its last owner was dropped">>}
              [] en.k = "retcall" -> {<<"C05", "ret_to target method not called by the end of run()">>}
              [] en.k = "fwdcall" -> {<<"C02", "Fwd call not delivered by the end of run()">>}
              [] en.k = "failcall" -> {<<"C05", "ret_fail!/ret_failthru! Ret used or dropped but its target was not failed by the end of run()">>,
                                       <<"C03", "failure passed on by a Ret did not take effect by the end of run()">>}
              [] en.k = "dkill" -> {<<"C03", "queued kill did not take effect by the end of run()">>}
              [] OTHER -> {}
          : i \in 1..Len(st.mainQ) }

ApplyRunEnd(st00, e) ==
  LET st == ApplyPend(st00)
      s0 == Settle(st)
      late == {t \in Unfired(s0) : s0.timers[t].s = "q" \/ Le(AddNs(Deadline(s0.timers[t]), TickNs), s0.runT)}
      fl == Flushing(s0)
      s1a == [s0 EXCEPT !.inRun = FALSE, !.depth = 0,
                        !.drainB = IF s0.draining THEN @ - 1 ELSE @]
      \* returning into the idle item of an outer run()
      s1 == IF s0.rstack = << >> THEN s1a
            ELSE LET f == s0.rstack[Len(s0.rstack)] IN
                 [s1a EXCEPT !.inRun = TRUE, !.rstack = SubSeq(@, 1, Len(@) - 1), !.runT = f.runT, !.runIdle = f.runIdle,
                             !.runAdv = f.runAdv, !.nexec = f.nexec, !.depth = f.depth, !.lastq = f.lastq,
                             !.fired = f.fired, !.preRun = f.preRun, !.applied = f.applied]
  IN R(s1, LeftoverBad(s0)
           \cup B(s0.lazyQ # << >>, "C06", "lazy work remains when run() returns")
           \cup B(e.ret # (s0.idleQ # << >>), "C06", "run() return value disagrees with idle backlog")
           \cup B(e.now # s0.now, "C15", "now() after run differs from the greatest instant passed in")
           \cup B(late # {}, "C08", "timer not fired by a run at least one step past its deadline")
           \cup B(fl # {}, "C02", "held Prep-time calls not flushed when the actor became Ready")
           \cup B(\E a \in fl : \E i \in 1..Len(s0.actors[a].held) : s0.actors[a].held[i].k = "retcall", "C05",
                   "ret_to delivery held for a Prep actor was lost when the actor became Ready"))

\* ---- timers
ApplyTAdd(st, e) ==
  LET tid == e.tid
      isCall == "aid" \in DOMAIN e
      tm == [kind |-> e.kind, eff |-> e.t, setAt |-> e.now, s |-> "p", item |-> e.item, ord |-> st.tord,
             touch |-> IF st.inRun THEN st.runNo ELSE -1]
      irec == [q |-> "timer", s |-> "p", aid |-> IF isCall THEN e.aid ELSE 0, prep |-> FALSE, tid |-> tid,
               hr |-> IF "hr" \in DOMAIN e THEN {e.hr[i] : i \in 1..Len(e.hr)} ELSE {}]
      s1 == [st EXCEPT !.timers = Put(@, tid, tm), !.tord = @ + 1, !.items = Put(@, e.item, irec),
                       !.drainB = IF st.draining THEN @ + IterBound(st, tm) ELSE @]
  IN R(s1, B(st.depth = 0 /\ st.inRun /\ FALSE, "C07", ""))

ApplyTMac(st, e) ==
  \* timer_max!/timer_min!: update if the key is live, else add
  LET tid == e.tid
      known == Has(st.timers, tid) /\ st.timers[tid].kind = e.kind
      maybe == known /\ MaybeExpired(st, tid)
      live == known /\ st.timers[tid].s = "p" /\ (e.upd \/ ~maybe)
  IN IF live
     THEN LET tm == st.timers[tid]
              better == IF e.kind = "max" THEN Lt(tm.eff, e.t) ELSE Lt(e.t, tm.eff)
              s1 == IF better THEN [st EXCEPT !.timers[tid].eff = e.t, !.timers[tid].setAt = e.now,
                                              !.timers[tid].touch = IF st.inRun /\ e.kind = "min" THEN st.runNo ELSE @] ELSE st
          IN R(s1, B(~e.upd, "C10", "timer_max!/timer_min! replaced a timer whose key was still live"))
     ELSE \* the old timer (if it was expired-and-queued) keeps its own identity: it is
          \* re-registered under a derived id so that its callback is still accounted for
          LET s0 == IF maybe THEN [st EXCEPT !.timers = Put(@, tid + 1000000, [st.timers[tid] EXCEPT !.s = "q", !.touch = st.runNo]),
                                             !.items[st.timers[tid].item].tid = tid + 1000000]
                    ELSE IF known /\ st.timers[tid].s = "q"
                    THEN [st EXCEPT !.timers = Put(@, tid + 1000000, st.timers[tid]),
                                    !.items[st.timers[tid].item].tid = tid + 1000000]
                    ELSE st
              r == ApplyTAdd(s0, [e EXCEPT !.e = "tadd"])
          IN R(r.st, r.bad \cup B(e.upd, "C10", "timer_max!/timer_min! updated through a stale key"))

KeyLive(st, e) == e.tid > 0 /\ Has(st.timers, e.tid) /\ st.timers[e.tid].s = "p"
KeyMaybe(st, e) == KeyLive(st, e) /\ MaybeExpired(st, e.tid)
\* A key operation answered `false` for a maybe-expired timer: it was expired
Expire(st, e) == [st EXCEPT !.timers[e.tid].s = "q", !.timers[e.tid].touch = st.runNo]
KeyBad(st, e, what) ==
  B(~KeyMaybe(st, e) /\ e.res # KeyLive(st, e), "C10", what)

ApplyTUpd(st, e) ==
  LET live == KeyLive(st, e)
      bad == KeyBad(st, e, "timer update result disagrees with whether the timer is pending")
  IN IF ~live THEN R(st, bad)
     ELSE IF KeyMaybe(st, e) /\ ~e.res THEN R(Expire(st, e), bad)
     ELSE LET tm == st.timers[e.tid]
              better == IF tm.kind = "max" THEN Lt(tm.eff, e.t) ELSE Lt(e.t, tm.eff)
          IN R(IF better THEN [st EXCEPT !.timers[e.tid].eff = e.t, !.timers[e.tid].setAt = e.now,
                                         !.timers[e.tid].touch = IF st.inRun /\ tm.kind = "min" THEN st.runNo ELSE @] ELSE st, bad)

ApplyTDel(st, e) ==
  LET live == KeyLive(st, e)
      bad == KeyBad(st, e, "timer delete result disagrees with whether the timer is pending")
      s0 == [st EXCEPT !.deleting = 0]
  IN IF ~live THEN R(s0, bad)
     ELSE IF KeyMaybe(st, e) /\ ~e.res THEN R(Expire(s0, e), bad)
     ELSE LET it == st.timers[e.tid].item IN
          R([s0 EXCEPT !.timers[e.tid].s = "d"],
            bad \cup B(e.res /\ st.items[it].s = "p", "C16", "deleted timer's closure was not released")
                \cup B(e.res /\ st.items[it].s = "p" /\ st.items[it].hr # {}, "C05", "Ret held by a deleted timer's closure was not invoked with None"))

ApplyTAct(st, e) ==
  LET bad == KeyBad(st, e, "timer active result disagrees with whether the timer is pending") IN
  IF KeyMaybe(st, e) /\ ~e.res THEN R(Expire(st, e), bad) ELSE R(st, bad)

ApplyNWait(st, e) ==
  R(st, NexpBad(st, e.has, e.x)
        \cup B(e.rhas # e.has, "C09", "next_wait None/Some disagrees with next_expiry")
        \cup B(e.has /\ e.rhas /\ e.res # SubSat(e.x, e.now), "C09", "next_wait disagrees with next_expiry"))

ApplyNWaitMax(st, e) ==
  LET want == IF e.pending THEN <<0, 0>>
              ELSE IF e.has THEN TMin(SubSat(e.x, e.now), e.max) ELSE e.max
  IN R(st, NexpBad(st, e.has, e.x) \cup B(e.res # want, "C09", "next_wait_max disagrees with next_expiry/maxdur/pending"))

\* ---- actors
ApplyACreate(st, e) ==
  LET a == [NewActor(e.parent, e.slab, e.logid) EXCEPT !.pn = IF "pnotify" \in DOMAIN e THEN e.pnotify ELSE ""]
      s1 == [st EXCEPT !.actors = Put(@, e.aid, a)]
      s2 == IF e.slab /\ Has(s1.actors, e.parent)
            THEN [s1 EXCEPT !.actors[e.parent].slab = @ \cup {e.aid}] ELSE s1
      \* C20: exactly one Open record, fresh non-zero id, creator as parent
      opens == {i \in 1..Len(st.logrecs) : st.logrecs[i].level = "open"}
      want == LevelAllowed(st, "open")
      pid == IF e.parent # 0 /\ Has(st.actors, e.parent) THEN st.actors[e.parent].logid ELSE 0
      quiet == "quiet" \in DOMAIN e /\ e.quiet     \* created inside the logger callback: nested records are not delivered
      lbad == IF ~st.logOn \/ quiet THEN {}
              ELSE IF want
              THEN B(Cardinality(opens) # 1, "C20", "actor creation did not emit exactly one Open record")
                   \cup B(e.logid = 0 \/ e.logid \in st.logids, "C20", "actor LogID is zero or not fresh")
                   \cup B(\E i \in opens : st.logrecs[i].id # e.logid \/ st.logrecs[i].parent # pid,
                          "C20", "Open record carries wrong id or parent")
              ELSE B(opens # {}, "C20", "Open record delivered although filtered out")
      \* ids are handed out whether or not a logger is installed yet (judged in the C20 runs, which use logger builds)
      ibad == B("C20" \in st.props /\ ~st.logOn /\ ~quiet /\ (e.logid = 0 \/ e.logid \in st.logids), "C20",
                "actor LogID is zero or not fresh (created before a logger was installed)")
  IN R([s2 EXCEPT !.logrecs = IF quiet THEN @ ELSE << >>, !.logids = @ \cup {e.logid}], lbad \cup ibad)

ApplyDie(st, e, cause) ==
  IF ~Has(st.actors, e.aid) THEN R(st, {}) ELSE
  R([st EXCEPT !.actors[e.aid].dying = IF @ = "" THEN cause ELSE @,
               !.actors[e.aid].issued = @ \cup {cause}], {})

ApplyKill(st, e) ==
  IF ~Has(st.actors, e.aid) THEN R(st, {}) ELSE
  LET c == "killed:" \o e.code
      s1 == [st EXCEPT !.actors[e.aid].issued = @ \cup {c}]
  IN R(Terminate(s1, e.aid, c), B(st.actors[e.aid].running > 0, "C03", "actor killed while one of its methods is running"))

ApplyKillEnd(st, e) ==
  IF ~Has(st.actors, e.aid) THEN R(st, {}) ELSE
  R(st, B(~st.actors[e.aid].notified, "C03", "kill returned without the notifier having been invoked"))

ApplyOwnDrop(st, e) ==
  IF ~Has(st.actors, e.aid) THEN R(st, {}) ELSE
  LET n == st.actors[e.aid].own - 1
      s1 == [st EXCEPT !.actors[e.aid].own = n]
  IN IF n = 0 /\ st.alive = "live"
     THEN R(AppendMain(s1, Entry("term", 0, e.aid, FALSE, Tag(st))), {})
     ELSE R(s1, B(n < 0, "C04", "harness: owner count negative"))

ApplyOwnClone(st, e) ==
  IF ~Has(st.actors, e.aid) THEN R(st, {}) ELSE
  R([st EXCEPT !.actors[e.aid].own = @ + 1], {})

ApplyVDrop(st, e) ==
  IF ~Has(st.actors, e.aid) THEN R(st, {}) ELSE
  LET a == st.actors[e.aid]
      r0 == IF a.s # "zombie" /\ st.alive = "live" THEN ImplicitDropTerm(st, e.aid) ELSE R(st, {})
      \* (the value's slab goes with it, after what the value's Drop handler defers: event `slabdrop`)
      s1 == [r0.st EXCEPT !.actors[e.aid].vdropped = TRUE]
  IN IF ~a.hasval /\ a.s = "zombie"
     THEN \* a value returned by a Prep step that also failed/stopped the actor: it never became
          \* the actor's value; it is simply dropped when that step returns
          \* (a slab handed to it goes with it: its children lose their owner)
          R([s1 EXCEPT !.actors[e.aid].vdropped = a.vdropped],
            B(a.running > 0, "C03", "actor value dropped while one of its methods is running"))
     ELSE
     R(s1, r0.bad
           \cup B(a.vdropped, "C03", "actor value dropped twice")
           \cup B(a.running > 0, "C03", "actor value dropped while one of its methods is running")
           \cup B(a.notified /\ a.cause # "none", "C03", "actor value dropped after the termination notification"))

\* the slab kept in an actor's value is dropped: its children lose their owner
ApplySlabDrop(st, e) ==
  IF ~Has(st.actors, e.aid) THEN R(st, {}) ELSE
  LET a == st.actors[e.aid]
      kids == IF st.alive = "live" THEN a.slab ELSE {}
      kseq == SetToSeq(kids)
      terms == [i \in 1..Len(kseq) |-> [Entry("term", 0, kseq[i], FALSE, Tag(st)) EXCEPT !.grp = 1000 + e.aid]]
  IN R([st EXCEPT !.actors = [x \in DOMAIN @ |-> IF x \in kids THEN [@[x] EXCEPT !.own = @ - 1] ELSE @[x]],
                  !.mainQ = @ \o SelectSeq(terms, LAMBDA t : st.actors[t.aid].own = 1)], {})

ApplyNotify(st, e) ==
  IF ~Has(st.actors, e.aid) THEN R(st, {}) ELSE
  LET a0 == st.actors[e.aid]
      dk == Len(e.cause) >= 6 /\ SubSeq(e.cause, 1, 6) = "killed"
              /\ \E i \in 1..Len(st.mainQ) : st.mainQ[i].k = "dkill" /\ st.mainQ[i].aid = e.aid
      r0 == IF (e.cause = "dropped" \/ dk) /\ a0.s # "zombie" /\ st.alive = "live"
            THEN ImplicitDropTerm(st, e.aid) ELSE R(st, {})
      a == r0.st.actors[e.aid]
      none == e.cause = "none"
      s1 == [r0.st EXCEPT !.actors[e.aid].notified = TRUE,
                          !.actors[e.aid].cause = IF none THEN "none" ELSE a.cause]
      \* slab child: its removal from the parent's slab is queued now
      s2 == IF ~none /\ a.slabOf # 0
            THEN AppendMain(s1, [Entry("slabrm", 0, a.slabOf, FALSE, Tag(st)) EXCEPT !.child = e.aid])
            ELSE s1
      closes == {i \in 1..Len(st.logrecs) : st.logrecs[i].level = "close"}
      marker == IF e.cause = "stopped" THEN ""
                ELSE IF e.cause = "dropped" THEN "dropped"
                ELSE IF SubSeq(e.cause, 1, 6) = "failed" THEN "failed" ELSE "killed"
      lbad == IF ~st.logOn \/ none THEN {}
              ELSE IF LevelAllowed(st, "close")
              THEN B(Cardinality(closes) # 1, "C20", "termination did not emit exactly one Close record")
                   \cup B(\E i \in closes : st.logrecs[i].id # a.logid \/ st.logrecs[i].marker # marker,
                          "C20", "Close record id/marker does not match the StopCause delivered")
              ELSE B(closes # {}, "C20", "Close record delivered although filtered out")
      \* ret_fail! passes on Some and None alike, ret_failthru! only a failed (or lost) child
      pcode == (IF a.pn = "fail" THEN "pf" ELSE "pt") \o ToString(e.aid)
      pass == a.pn = "fail" \/ (a.pn = "failthru" /\ ~none /\ Len(e.cause) >= 6 /\ SubSeq(e.cause, 1, 6) = "failed")
      s3 == IF pass /\ a.parent # 0
            THEN AppendMain(s2, [Entry("failcall", 0, a.parent, FALSE, Tag(st)) EXCEPT !.code = pcode])
            ELSE s2
  IN R([s3 EXCEPT !.logrecs = << >>],
       r0.bad \cup lbad
       \cup B(a0.notified, "C03", "StopCause notifier invoked more than once")
       \cup B("intact" \in DOMAIN e /\ ~e.intact, "C03", "error payload of the StopCause was not delivered intact")
       \cup B(none /\ st.alive = "live", "C03", "StopCause notifier dropped without being invoked")
       \cup B(~none /\ a.s # "zombie", "C03", "notifier invoked for an actor that did not terminate")
       \cup B(~none /\ a.s = "zombie" /\ e.cause # a.cause, "C03", "notifier cause is not the termination request that took effect first")
       \cup B(~none /\ a.hasval /\ ~a.vdropped, "C03", "notifier invoked before the actor value was dropped")
       \cup B(~none /\ ~e.zombie, "C03", "is_zombie() false after termination")
       \cup B(~none /\ a.running > 0, "C03", "actor terminated while one of its methods is running"))

ApplyZombie(st, e) ==
  IF ~Has(st.actors, e.aid) THEN R(st, {}) ELSE
  R(st, B(e.res # (st.actors[e.aid].s = "zombie") /\ st.actors[e.aid].dying = "",
          "C03", "is_zombie() disagrees with the actor's lifecycle state"))

ApplySlabLen(st, e) ==
  IF ~Has(st.actors, e.aid) THEN R(st, {}) ELSE
  LET a == st.actors[e.aid] IN
  R(st, B(e.ready /\ a.s = "ready" /\ e.len # Cardinality(a.slab), "C04",
          "ActorOwnSlab does not contain exactly the not-yet-terminated children")
        \cup B(e.ready /\ "iter" \in DOMAIN e /\ (e.iter # e.len \/ e.empty # (e.len = 0)), "C04",
                "ActorOwnSlab: len(), is_empty() and iteration disagree")
        \cup B(e.ready /\ a.s = "ready" /\ "zombies" \in DOMAIN e
                  /\ e.zombies # Cardinality({k \in a.slab : AState(st, k) = "zombie"}), "C04",
                "ActorOwnSlab holds other terminated children than those whose removal is still queued"))

\* ---- Ret / Fwd
ApplyMkRet(st, e) ==
  R([st EXCEPT !.rets = Put(@, e.rid, [kind |-> e.kind, aid |-> e.aid, s |-> "live", cbs |-> 0])], {})

RetFire(st, rid, has, val) ==
  LET r == st.rets[rid]
      s1 == [st EXCEPT !.rets[rid].s = IF has THEN "used" ELSE "dropped"]
  IN IF r.kind = "plain" \/ (r.kind = "somedo" /\ has) THEN [s1 EXCEPT !.expcb = Append(@, <<rid, has, val>>)]
     ELSE IF r.kind = "somedo" THEN s1
     ELSE IF r.kind = "someto" /\ ~has THEN [s1 EXCEPT !.rets[rid].cbs = @ + 1, !.expArg = rid]
     ELSE IF r.kind = "retfail"      \* ret_fail!: used or dropped, its creator is failed
     THEN AppendMain([s1 EXCEPT !.rets[rid].cbs = @ + 1],
                     [Entry("failcall", 0, r.aid, FALSE, Tag(st)) EXCEPT !.code = "rf" \o ToString(rid)])
     ELSE IF r.kind \in {"to", "toprep"} \/ has
     THEN AppendMain([s1 EXCEPT !.rets[rid].cbs = @ + 1],
                     [Entry("retcall", rid, r.aid, r.kind = "toprep", Tag(st)) EXCEPT !.has = has, !.val = val])
     ELSE [s1 EXCEPT !.rets[rid].cbs = @ + 1]

ApplyRet(st, e) ==
  IF ~Has(st.rets, e.rid) THEN R(st, {}) ELSE
  R(RetFire(st, e.rid, TRUE, e.val), B(st.rets[e.rid].s # "live", "C05", "harness: Ret used twice"))

ApplyRetDrop(st, e) ==
  IF ~Has(st.rets, e.rid) THEN R(st, {}) ELSE
  R(RetFire(st, e.rid, FALSE, 0), B(st.rets[e.rid].s # "live", "C05", "harness: Ret dropped twice"))

ApplyRetCb(st, e) ==
  IF ~Has(st.rets, e.rid) THEN R(st, {<<"C05", "callback of unknown Ret">>}) ELSE
  LET exp == st.expcb
      ok == exp # << >> /\ exp[1] = <<e.rid, e.has, e.val>>
  IN R([st EXCEPT !.expcb = IF ok THEN Tail(@) ELSE @, !.rets[e.rid].cbs = @ + 1],
       B(~ok, "C05", "Ret handler invoked unexpectedly or with the wrong Some/None/value")
       \cup B(st.rets[e.rid].cbs > 0, "C05", "Ret handler invoked more than once"))

ApplyRCall(st, e) ==
  IF ~Has(st.rets, e.rid) THEN R(st, {<<"C05", "ret_to call for unknown Ret">>}) ELSE
  LET a == e.aid
      heldHit == Has(st.actors, a) /\ st.actors[a].held # << >> /\
                 st.actors[a].held[1].k = "retcall" /\ st.actors[a].held[1].id = e.rid
      toprep == st.rets[e.rid].kind = "toprep"
      gate == IF toprep THEN B(AState(st, a) # "prep", "C02", "Prep-style ret_to target ran outside Prep")
              ELSE B(AState(st, a) # "ready", "C02", "ret_to target method ran while actor not Ready")
  IN IF heldHit /\ ~toprep
     THEN LET en == st.actors[a].held[1]
              s1 == SettleHeld([st EXCEPT !.actors[a].held = Tail(@)], a)
          IN R(s1, gate \cup B(en.has # e.has \/ (en.has /\ en.val # e.val), "C05", "ret_to target received the wrong Some/None/value"))
     ELSE LET f == ToFront(st, LAMBDA en : en.k = "retcall" /\ en.id = e.rid)
              fl == Flushing(st)
          IN R([f.st EXCEPT !.phase = IF st.depth = 0 THEN @ + 1 ELSE @,
                            !.lastq = IF st.depth = 0 THEN "main" ELSE @],
               gate
               \cup B(~f.found, "C05", "ret_to target method called more than once or without ret/drop")
               \cup B(f.found /\ ~f.ok, "C02", "ret_to delivery executed out of submission order")
               \cup B(f.found /\ (f.en.has # e.has \/ (f.en.has /\ f.en.val # e.val)), "C05", "ret_to target received the wrong Some/None/value")
               \cup B(f.found /\ st.rets[e.rid].kind = "someto" /\ ~e.has, "C05", "ret_some_to target called for None")
               \cup B(fl # {}, "C02", "held Prep-time calls not flushed first"))

ApplyMkFwd(st, e) == R([st EXCEPT !.fwds = Put(@, e.fid, e.aid)], {})

ApplyFwd(st, e) ==
  IF ~Has(st.fwds, e.fid) THEN R(st, {}) ELSE
  IF st.fwds[e.fid] = 0
  THEN \* fwd_do!: the closure is called there and then
       R([st EXCEPT !.expcb = Append(@, <<-e.fid, TRUE, e.val>>)], {}) ELSE
  R(AppendMain(st, [Entry("fwdcall", e.fid, st.fwds[e.fid], FALSE, Tag(st)) EXCEPT !.val = e.val]), {})

ApplyFCall(st, e) ==
  LET a == e.aid
      heldHit == Has(st.actors, a) /\ st.actors[a].held # << >> /\
                 st.actors[a].held[1].k = "fwdcall" /\ st.actors[a].held[1].id = e.fid /\
                 st.actors[a].held[1].val = e.val
      gate == B(AState(st, a) # "ready", "C02", "fwd_to target method ran while actor not Ready")
  IN IF heldHit
     THEN R(SettleHeld([st EXCEPT !.actors[a].held = Tail(@)], a), gate)
     ELSE LET f == ToFront(st, LAMBDA en : en.k = "fwdcall" /\ en.id = e.fid /\ en.val = e.val)
          IN R([f.st EXCEPT !.phase = IF st.depth = 0 THEN @ + 1 ELSE @,
                            !.lastq = IF st.depth = 0 THEN "main" ELSE @],
               gate \cup B(~f.found, "C02", "Fwd delivery that was never sent, or sent once and delivered twice")
                    \cup B(f.found /\ ~f.ok, "C02", "Fwd delivery executed out of submission order"))

\* ---- logging
ApplyLogRec(st, e) ==
  IF st.expLog # << >> /\ e.id = 0 /\ e.level = st.expLog[1]
  THEN R([st EXCEPT !.expLog = Tail(@)], B(~LevelAllowed(st, e.level), "C20", "record below the installed filter was delivered"))
  ELSE IF e.id = 0 /\ e.level = "info" /\ e.parent = 0 /\ st.expLog = << >>
  THEN R(st, {})   \* "Logging level changed": documented unconditional record
  ELSE R([st EXCEPT !.logrecs = Append(@, e)],
         B(~LevelAllowed(st, e.level), "C20", "record below the installed filter was delivered"))

ApplyLogCall(st, e) ==
  IF LevelAllowed(st, e.level) THEN R([st EXCEPT !.expLog = Append(@, e.level)], {}) ELSE R(st, {})

ApplyLogCheck(st, e) ==
  LET got == {e.allowed[i] : i \in 1..Len(e.allowed)}
      want == IF st.logOn THEN st.filter ELSE {}
  \* (C20 speaks about a logger that is installed: a filter set before any logger exists is not judged)
  IN R(st, B(st.logOn /\ got # want, "C20", "log_check disagrees with the installed filter"))

\* ---- Stakker drop / end of case
UnreleasedBad(st) ==
  LET heldIds == UNION {{st.actors[a].held[i].id : i \in 1..Len(st.actors[a].held)} : a \in DOMAIN st.actors}
      \* calls held for an actor still in Prep live in that actor, not in the Stakker
      left == {i \in DOMAIN st.items : st.items[i].s = "p" /\ st.items[i].q # "void" /\ i \notin heldIds} IN
     B(\E i \in left : st.items[i].q = "main", "C01", "pending main-queue closure not dropped when the Stakker was dropped")
  \cup B(\E i \in left : st.items[i].hr # {}, "C05", "Ret held by a closure pending at Stakker drop was not invoked with None")
  \cup B(left # {}, "C16", "pending closure not released when the Stakker was dropped")

ApplyDropped(st) ==
  R([st EXCEPT !.alive = "dead", !.mainQ = << >>], UnreleasedBad(st))

ApplyEnd(st) ==
  LET rbad == UNION { LET r == st.rets[rid] IN
                        B(r.s = "live", "C05", "Ret neither used nor dropped at the end (harness)")
                        \cup B(r.cbs = 0 /\ ~(r.kind \in {"someto", "somedo"} /\ r.s = "dropped") /\ ~(r.kind \notin {"plain", "somedo"} /\ st.alive = "dead"),
                               "C05", "Ret handler never invoked")
                      : rid \in DOMAIN st.rets }
      abad == UNION { LET a == st.actors[aid] IN
                        B(~a.notified, "C03", "StopCause notifier never invoked nor released")
                        \cup B(a.hasval /\ ~a.vdropped, "C16", "actor value never dropped")
                      : aid \in DOMAIN st.actors }
      ibad == B(\E i \in DOMAIN st.items : i \notin st.tokdrop /\ st.items[i].q # "void",
                "C16", "closure captures / message never dropped")
      gbad == B(\E rid \in DOMAIN st.rets : st.rets[rid].kind \notin {"plain", "somedo", "retfail"} /\ rid \notin st.argdrop,
                "C05", "closure / fixed arguments behind a ret_to!-style Ret never released")
  IN R(st, gbad \cup rbad \cup abad \cup ibad \cup B(st.expcb # << >>, "C05", "Ret handler not invoked at the moment of ret()/drop"))

\* After a caught user panic the run was abandoned half-way: nothing is promised about
\* what still runs, but no value may be dropped twice and no closure may run twice.
ApplyBoomed(st, e) ==
  CASE e.e = "case" -> R(Init0({e.props[i] : i \in 1..Len(e.props)}), {})
    [] e.e = "drop" ->
         R([st EXCEPT !.tokdrop = @ \cup {e.item}],
           B(Has(st.items, e.item) /\ e.item \in st.tokdrop, "C16", "value handed to the runtime dropped twice (after a caught panic)"))
    [] e.e = "vdrop" ->
         IF ~Has(st.actors, e.aid) THEN R(st, {}) ELSE
         R([st EXCEPT !.actors[e.aid].vdropped = TRUE],
           B(st.actors[e.aid].vdropped, "C16", "actor value dropped twice (after a caught panic)"))
    [] e.e = "x" ->
         IF ~Has(st.items, e.item) THEN R(st, {}) ELSE
         R([st EXCEPT !.items[e.item].s = "x"],
           B(st.items[e.item].s # "p", "C16", "closure executed twice / after being dropped (after a caught panic)"))
    [] e.e = "corrupt" -> R(st, {<<"C16", "captured data corrupted or misaligned">>})
    [] e.e = "droppedstakker" ->
         LET left == {i \in st.mustDrop : i \notin st.tokdrop} IN
         R([st EXCEPT !.mustDrop = {}],
           B(left # {}, "C01", "closure submitted by the item that panicked was not dropped when the Stakker was dropped")
           \cup B(left # {}, "C16", "closure submitted by the item that panicked was not released when the Stakker was dropped")
           \cup B(\E i \in left : st.items[i].hr # {}, "C05", "Ret held by a closure pending at Stakker drop (after a caught panic) was not invoked with None"))
    \* a Ret dropped while the panic unwinds (or afterwards) still reports None, there and then
    [] e.e = "retdrop" -> ApplyRetDrop(st, e)
    [] e.e = "retcb" -> ApplyRetCb(st, e)
    [] e.e = "argdrop" ->
         R([st EXCEPT !.argdrop = @ \cup {e.rid}], B(e.rid \in st.argdrop, "C16", "fixed argument of a Ret released twice"))
    [] e.e = "end" -> R(st, IF st.panicked THEN {} ELSE
                            B(st.expcb # << >>, "C05", "Ret dropped by an unwinding panic did not report None"))
    [] e.e = "panic" ->
         R([st EXCEPT !.panicked = TRUE],
           IF e.harness THEN {<<"HARNESS", e.msg>>} ELSE {<<p, "panic in " \o e.during \o ": " \o e.msg>> : p \in st.props})
    [] e.e = "crash" -> R([st EXCEPT !.panicked = TRUE], {<<p, "process aborted: " \o e.msg>> : p \in st.props})
    [] OTHER -> R(st, {})

Apply1(st, e) ==
  CASE e.e = "case" -> R(Init0({e.props[i] : i \in 1..Len(e.props)}), {})
    [] e.e = "new" -> R([st EXCEPT !.alive = "live"], {})
    [] e.e = "sub" -> ApplySub(st, e)
    [] e.e = "x" -> ApplyX(st, e)
    [] e.e = "xe" -> ApplyXE(st, e)
    [] e.e = "drop" -> ApplyDrop(st, e)
    [] e.e = "run" -> ApplyRun(st, e)
    [] e.e = "runend" -> ApplyRunEnd(st, e)
    [] e.e = "apply" ->
         \* direct Actor::apply: runs now (Ready), is held (Prep) or is discarded (Zombie)
         LET rec == [q |-> "direct", s |-> "p", aid |-> e.aid, prep |-> FALSE, tid |-> 0, hr |-> {}]
             s1 == [st EXCEPT !.items = Put(@, e.item, rec)]
         IN IF AState(st, e.aid) = "prep"
            THEN R([s1 EXCEPT !.actors[e.aid].held = Append(@, Entry("call", e.item, e.aid, FALSE, 0))], {})
            ELSE R(s1, {})
    [] e.e = "query" ->
         \* Actor::query: runs now (Ready) or is discarded (Prep, Zombie); never held
         R([st EXCEPT !.items = Put(@, e.item, [q |-> "query", s |-> "p", aid |-> e.aid, prep |-> FALSE, tid |-> 0, hr |-> {}])], {})
    [] e.e = "querye" ->
         LET ran == Has(st.items, e.item) /\ st.items[e.item].s = "r" IN
         R(st, B(e.some # ran, "C02", "query() result disagrees with whether the method was executed")
               \cup B(~e.okval, "C02", "query() returned a value the method did not produce")
               \cup B(Has(st.items, e.item) /\ st.items[e.item].s = "p", "C16", "query closure neither run nor released when query() returned"))
    [] e.e = "tadd" -> ApplyTAdd(st, e)
    [] e.e = "tmac" -> ApplyTMac(st, e)
    [] e.e = "tupd" -> ApplyTUpd(st, e)
    [] e.e = "tdelb" -> R([st EXCEPT !.deleting = e.tid], {})
    [] e.e = "tdel" -> ApplyTDel(st, e)
    [] e.e = "tact" -> ApplyTAct(st, e)
    [] e.e = "nexp" -> R(st, NexpBad(st, e.has, e.x))
    [] e.e = "nwait" -> ApplyNWait(st, e)
    [] e.e = "nwaitmax" -> ApplyNWaitMax(st, e)
    [] e.e = "drain" ->
         R([st EXCEPT !.draining = TRUE,
                      !.drainB = FoldFunctionOnSet(LAMBDA x, acc : acc + IterBound(st, x), 1, st.timers, Unfired(st))], {})
    [] e.e = "drainend" ->
         R([st EXCEPT !.draining = FALSE],
           B(st.drainB < 0, "C09", "follow-next_expiry loop needed more iterations than the bound")
           \cup B(Unfired(st) # {}, "C09", "follow-next_expiry loop did not fire every pending timer"))
    [] e.e = "boom" ->
         \* what the panicking top-level item (and everything nested in it) had submitted so far went to the live
         \* queues, not to the batch being executed: the Stakker still owns it and must release it when dropped
         R([st EXCEPT !.boomed = TRUE,
                      !.mustDrop = {i \in DOMAIN st.items \ st.preTop :
                                      st.items[i].s = "p" /\ st.items[i].q \in {"main", "lazy", "idle", "timer"} /\ st.items[i].aid = 0}], {})
    [] e.e = "renewed" ->
         \* a new Stakker on the same thread, after the previous one was dropped and every handle
         \* released: Stakker::new released what was stranded; nothing of it is pending any more
         LET fresh == Init0(st.props)
             \* what the first life left pending (e.g. calls held by an actor that never left Prep and is
             \* kept alive by a reference cycle) is not the new Stakker's to run or release
             olditems == [i \in DOMAIN st.items |-> IF st.items[i].s = "p" THEN [st.items[i] EXCEPT !.q = "void"] ELSE st.items[i]]
         IN R([fresh EXCEPT !.alive = "live", !.items = olditems, !.tokdrop = st.tokdrop,
                            !.actors = [a \in DOMAIN st.actors |-> [st.actors[a] EXCEPT !.held = << >>]],
                            !.rets = st.rets, !.fwds = st.fwds, !.oldgen = DOMAIN st.actors, !.argdrop = st.argdrop],
              \* (whether what was deferred after the drop has been released by now depends on the Deferrer
              \*  implementation: documented exclusion; what matters is that none of it ever runs)
              {})
    [] e.e = "startinst" -> R(st, B(e.t # <<0, 0>>, "C15", "start_instant() changed"))
    [] e.e = "corrupt" -> R(st, {<<"C01", "captured data corrupted or misaligned">>, <<"C16", "captured data corrupted or misaligned">>, <<"C17", "captured data corrupted or misaligned">>})
    [] e.e = "argdrop" ->
         R([st EXCEPT !.argdrop = @ \cup {e.rid}],
           B(e.rid \in st.argdrop, "C16", "fixed argument of a Ret released twice"))
    [] e.e = "filterparse" ->
         R(st, B(~e.ok, "C20", "a LogFilter written as text does not give the filter built from the same levels"))
    [] e.e = "argswap" -> R(st, {<<"C02", "a call / forwarded message arrived with other arguments than it was made with">>,
                                   <<"C05", "a call / forwarded message arrived with other arguments than it was made with">>})
    [] e.e = "reenter" -> R(st, {<<"C03", "actor method re-entered">>})
    [] e.e = "dropstakker" -> R([Settle(st) EXCEPT !.alive = "dropping"], {})
    [] e.e = "droppedstakker" -> ApplyDropped(st)
    [] e.e = "acreate" -> ApplyACreate(st, e)
    [] e.e = "stop" -> ApplyDie(st, e, "stopped")
    [] e.e = "fail" -> ApplyDie(st, e, "failed:" \o e.code)
    [] e.e = "dkill" ->
         \* kill!(owner, ...): another owner is taken and a closure that kills through it is deferred
         IF ~Has(st.actors, e.aid) THEN R(st, {}) ELSE
         LET c == "killed:" \o e.code
             s1 == [st EXCEPT !.actors[e.aid].own = @ + 1, !.actors[e.aid].issued = @ \cup {c}]
         IN R(AppendMain(s1, [Entry("dkill", 0, e.aid, FALSE, Tag(st)) EXCEPT !.code = e.code]), {})
    [] e.e = "kill" -> ApplyKill(st, e)
    [] e.e = "kille" -> ApplyKillEnd(st, e)
    [] e.e = "owndrop" -> ApplyOwnDrop(st, e)
    [] e.e = "ownclone" -> ApplyOwnClone(st, e)
    [] e.e = "vdrop" ->
         IF e.aid \in st.oldgen /\ Has(st.actors, e.aid)
         THEN R([st EXCEPT !.actors[e.aid].vdropped = TRUE], B(st.actors[e.aid].vdropped, "C16", "actor value dropped twice"))
         ELSE LET r == ApplyVDrop(st, e) IN
              \* the state is Zombie before the value goes (to_zombie sets the packed state first)
              R(r.st, r.bad \cup B("zombie" \in DOMAIN e /\ ~e.zombie /\ st.alive = "live" /\ Has(st.actors, e.aid)
                                     /\ st.actors[e.aid].hasval,
                                   "C03", "is_zombie() still false while termination drops the actor's value"))
    [] e.e = "slabdrop" -> ApplySlabDrop(st, e)
    [] e.e = "notify" ->
         IF e.aid \in st.oldgen /\ e.cause # "none" /\ st.alive = "live" /\ Has(st.actors, e.aid) /\ ~st.actors[e.aid].notified
         THEN R([st EXCEPT !.actors[e.aid].notified = TRUE],
                {<<"C18", "termination deferred to a dropped Stakker was executed by the next Stakker">>,
                 <<"C01", "closure submitted after Stakker drop was executed">>})
         ELSE ApplyNotify(st, e)
    [] e.e = "pslabdrop" ->
         IF ~Has(st.actors, e.aid) THEN R(st, {}) ELSE
         LET kids == IF st.alive = "live" THEN st.actors[e.aid].slab ELSE {}
             kseq == SetToSeq(kids)
             terms == [i \in 1..Len(kseq) |-> [Entry("term", 0, kseq[i], FALSE, Tag(st)) EXCEPT !.grp = 2000 + e.aid]]
         IN R([st EXCEPT !.actors = [x \in DOMAIN @ |-> IF x \in kids THEN [@[x] EXCEPT !.own = @ - 1] ELSE @[x]],
                         !.mainQ = @ \o SelectSeq(terms, LAMBDA t : st.actors[t.aid].own = 1)], {})
    [] e.e = "zombie" -> ApplyZombie(st, e)
    [] e.e = "slablen" -> ApplySlabLen(st, e)
    [] e.e = "mkret" -> ApplyMkRet(st, e)
    [] e.e = "ret" -> ApplyRet(st, e)
    [] e.e = "retdrop" -> ApplyRetDrop(st, e)
    [] e.e = "retcb" -> ApplyRetCb(st, e)
    [] e.e = "rcall" -> ApplyRCall(st, e)
    [] e.e = "mkfwd" -> ApplyMkFwd(st, e)
    [] e.e = "fwd" -> ApplyFwd(st, e)
    [] e.e = "fcall" -> ApplyFCall(st, e)
    [] e.e = "fcb" ->
         LET ok == st.expcb # << >> /\ st.expcb[1] = <<-e.fid, TRUE, e.val>> IN
         R([st EXCEPT !.expcb = IF ok THEN Tail(@) ELSE @],
           B(~ok, "C05", "fwd_do! closure invoked unexpectedly or with the wrong value"))
    [] e.e = "setlogger" -> R([st EXCEPT !.logOn = TRUE, !.filter = FilterOf({e.levels[i] : i \in 1..Len(e.levels)})], {})
    [] e.e = "logfilter" -> R([st EXCEPT !.filter = FilterOf({e.levels[i] : i \in 1..Len(e.levels)})], {})
    [] e.e = "logrec" -> ApplyLogRec(st, e)
    [] e.e = "logcall" -> ApplyLogCall(st, e)
    [] e.e = "logcheck" -> ApplyLogCheck(st, e)
    [] e.e = "panic" ->
         \* a panic is charged to the properties that speak about the operation it
         \* happened in (run() can execute anything: charged to the case's properties)
         LET timerOps == {"tadd", "after", "tmac", "tupd", "tdel", "tact", "nexp", "nwait", "nwaitmax"}
             queueOps == {"defer", "lazy", "idle"}
             actorOps == {"acreate", "call", "apply", "query", "kill", "owndrop", "ownclone", "ownanon", "keepown", "unkeepown",
                          "mkret", "ret", "retdrop", "keepret", "mkfwd", "fwd", "refstorm", "stop", "fail"}
             who == IF e.during \in {"tupd", "tdel", "tact"} THEN {"C08", "C10"}     \* key operations: "stale / Default keys are inert"
                    ELSE IF e.during \in timerOps THEN {"C08"}
                    ELSE IF e.during \in queueOps THEN st.props \cap {"C01", "C06", "C16", "C17", "C18"}
                    ELSE IF e.during \in actorOps THEN st.props \cap {"C02", "C03", "C04", "C05", "C16", "C18", "C20"}
                    ELSE st.props
         IN R([st EXCEPT !.panicked = TRUE],
              IF e.harness THEN {<<"HARNESS", e.msg>>} ELSE {<<p, "panic in " \o e.during \o ": " \o e.msg>> : p \in who})
    [] e.e = "crash" -> R([st EXCEPT !.panicked = TRUE], {<<p, "process aborted: " \o e.msg>> : p \in st.props})
    [] e.e = "dh" -> R([st EXCEPT !.dhq = Append(@, IF Has(st.items, e.item) THEN st.items[e.item].q ELSE "none")], {})
    [] e.e = "dhe" -> R([st EXCEPT !.dhq = IF @ = << >> THEN @ ELSE SubSeq(@, 1, Len(@) - 1)], {})
    [] e.e = "end" ->
         IF st.panicked THEN R(st, {})
         ELSE IF e.leakcheck THEN ApplyEnd(st)
         ELSE IF "flushcheck" \in DOMAIN e /\ e.flushcheck /\ DOMAIN st.actors = {}
         THEN \* no actors (no reference cycles possible): whatever was stranded in the Deferrer queue after
              \* the Stakker was dropped has been released by the next Stakker::new
              R(st, B(\E i \in DOMAIN st.items : i \notin st.tokdrop, "C16", "closure stranded after Stakker drop was not released by the next Stakker::new")
                    \cup B(\E r \in DOMAIN st.rets : st.rets[r].s = "live", "C05", "Ret held by a stranded closure was never invoked")
                    \cup B(st.expcb # << >>, "C05", "Ret handler not invoked at the moment of ret()/drop"))
         ELSE R(st, {})
    [] OTHER -> R(st, {})     \* keepown, keepret, refstorm, dh, dhe, nop, endcase, ...

Apply2(st, e) == IF st.boomed THEN ApplyBoomed(st, e) ELSE Apply1(st, e)

\* dropping an unused ret_some_to! Ret releases its closure there and then (nothing is queued for None)
Apply(st, e) ==
  IF st.expArg # 0 /\ e.e # "case"
  THEN LET r == Apply2([st EXCEPT !.expArg = 0], e)
       IN R(r.st, r.bad \cup B(~(e.e = "argdrop" /\ e.rid = st.expArg), "C05",
                               "closure / fixed arguments of a ret_some_to! Ret not released when the Ret was dropped unused"))
  ELSE Apply2(st, e)

=============================================================================
