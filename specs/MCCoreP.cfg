SPECIFICATION Spec
CONSTANTS
  MaxItems = 4
  MaxActors = 2
  MaxOwners = 2
  MaxRets = 0
  MaxTop = 4
  MaxBody = 2
  TopOps <- Ops_PTop
  BodyOps <- Ops_PBody
  MethOps <- Ops_PMeth
  LogLevels = {}
  RunTimes = {1}
INVARIANT NoViolation ExportInvP
VIEW View
CHECK_DEADLOCK FALSE
