SPECIFICATION Spec
CONSTANTS
  MaxOps = 4
  MaxTimers = 2
  AddOffsets <- AddOffsMinDel
  RunOffsets <- RunOffsMinDel
  Kinds <- VarOnly
  ClampModMin = TRUE
INVARIANT NoViolation WindowInv SlotInv ExportInv
VIEW View
CHECK_DEADLOCK FALSE
