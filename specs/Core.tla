-------------------------------- MODULE Core --------------------------------
(***************************************************************************)
(* Design specification of stakker's single-threaded core, structured like *)
(* the implementation (core.rs Stakker::run / Drop, actor.rs apply /        *)
(* apply_prep / terminate, rc/actorrc_*.rs to_ready / to_zombie, ret.rs,    *)
(* ActorOwn drop, ActorOwnSlab):                                            *)
(*   - the Deferrer (main) queue, the lazy queue, the idle queue, the two   *)
(*     alternate queues that are swapped in while the live ones execute;    *)
(*   - timers at the abstraction level of the run loop (deadline, sequence) *)
(*   - per actor: the inner enum (Prep(queue) | Ready | Zombie), the packed *)
(*     copy of the state kept outside the cell, the owner count, the        *)
(*     notifier cell, the held-call queue;                                  *)
(*   - owner handles and Ret objects with their holders.                    *)
(* What a closure or method does when it runs (its body) is chosen          *)
(* nondeterministically at that moment from an effect alphabet and recorded *)
(* in `script`: every behaviour of this spec is a program for the real      *)
(* code.  Every step emits the observable events of that program; they are  *)
(* folded through the abstract monitor SeqAbs, and "no violation" is the    *)
(* invariant TLC checks (C01-C06, C15, and the queue part of C19).          *)
(***************************************************************************)
EXTENDS SeqAbs

CONSTANTS
  MaxItems,     \* budget of closures / calls created
  MaxActors,
  MaxOwners,
  MaxRets,
  MaxTop,       \* number of top-level operations
  MaxBody,      \* effects per closure / method body
  TopOps,       \* subset of operation names enabled at top level
  BodyOps,      \* subset enabled inside closures
  MethOps,      \* subset enabled inside actor methods
  RunTimes,     \* set of instants (whole seconds) for run()
  LogLevels     \* {} : built without the logger feature; else the levels given to set_logger

VARIABLES d, mon, bad, script, hist, elog

vars == <<d, mon, bad, script, hist, elog>>

NoC == [k |-> "none", id |-> 0, aid |-> 0, prep |-> FALSE, rid |-> 0, has |-> FALSE,
        val |-> 0, child |-> 0, ho |-> {}, hr |-> {}, od |-> 0, code |-> ""]
\* od: id of the closure that the Drop handler of this closure's captures defers
\* (through a Deferrer, without Core access) when they are dropped
Clo(k, id, aid, prep) == [NoC EXCEPT !.k = k, !.id = id, !.aid = aid, !.prep = prep]

T(s) == <<s, 0>>

DInit ==
  [ deferQ |-> << >>, lazyQ |-> << >>, idleQ |-> << >>, altMain |-> << >>, altLazy |-> << >>,
    sync |-> << >>,          \* closures to execute synchronously (held-call flush)
    timers |-> << >>,        \* sequence of [at, c] in creation order
    now |-> 0, pc |-> "top", alive |-> TRUE, runArg |-> 0,
    nextLog |-> 1, nextId |-> 1, nextAid |-> 1, nextOid |-> 1, nextRid |-> 1, nextTid |-> 1, topn |-> 0,
    actors |-> << >>,        \* aid -> [inner, bits, strong, prepQ, notify, hasval, kept, keptR, die]
    owners |-> << >>,        \* oid -> [aid, loc]    loc: top | msg | state | gone
    rets |-> << >>,          \* rid -> [kind, aid, loc]
    fwds |-> << >>, nextFid |-> 1, nextVal |-> 1,   \* fid -> target actor (fwd_to!); message values sent so far
    race |-> FALSE,          \* a slab child was added while a dead sibling still awaited its removal (export filter)
    evs |-> << >>,           \* events emitted by the current step
    ops |-> << >> ]          \* script lines produced by the current body

Logger == LogLevels # {}
LogAllowed(lvl) == Logger /\ lvl \in FilterOf(LogLevels)
SetLoggerEv == [e |-> "setlogger", levels |-> SetToSeq(LogLevels)]

Init ==
  /\ d = DInit
  /\ mon = IF Logger THEN Apply([Init0({}) EXCEPT !.alive = "live"], SetLoggerEv).st
            ELSE [Init0({}) EXCEPT !.alive = "live"]
  /\ bad = {}
  /\ script = (0 :> IF Logger THEN <<[op |-> "setlogger", levels |-> SetToSeq(LogLevels)]>> ELSE << >>)
  /\ hist = << >>
  /\ elog = IF Logger THEN <<SetLoggerEv>> ELSE << >>

Emit(s, e) == [s EXCEPT !.evs = Append(@, e)]
Op(s, o) == [s EXCEPT !.ops = Append(@, o)]
Budget(s) == s.nextId <= MaxItems

(* ---------------------------------------------------------------- *)
(* termination, as actor.rs terminate + to_zombie                    *)
(* ---------------------------------------------------------------- *)
RECURSIVE DropClosures(_, _), DropOwner(_, _), DropRet(_, _), DropValue(_, _), DropSlabOwner(_, _)

\* strong_dec; on reaching zero defer terminate(Dropped)
DropOwner(s, o) ==
  LET a == s.owners[o].aid
      s1 == Emit([s EXCEPT !.owners[o].loc = "gone", !.actors[a].strong = @ - 1],
                 [e |-> "owndrop", oid |-> o, aid |-> a])
  IN IF s1.actors[a].strong = 0 /\ s.alive
     THEN [s1 EXCEPT !.deferQ = Append(@, Clo("term", 0, a, FALSE))]
     ELSE s1

\* Ret dropped without ret(): handler called with None
DropRet(s, r) ==
  LET rt == s.rets[r]
      s1 == Emit([s EXCEPT !.rets[r].loc = "gone"], [e |-> "retdrop", rid |-> r])
  IN IF rt.kind = "plain" THEN Emit(s1, [e |-> "retcb", rid |-> r, has |-> FALSE, val |-> 0])
     ELSE IF rt.kind \in {"to", "toprep"} /\ s.alive
     THEN [s1 EXCEPT !.deferQ = Append(@, [Clo("retcall", 0, rt.aid, rt.kind = "toprep") EXCEPT !.rid = r])]
     ELSE IF rt.kind = "someto"
     THEN Emit(s1, [e |-> "argdrop", rid |-> r])     \* nothing is queued for None: the closure goes now
     ELSE IF rt.kind = "retfail" /\ s.alive
     THEN [s1 EXCEPT !.deferQ = Append(@, [Clo("failcall", 0, rt.aid, FALSE) EXCEPT !.code = "rf" \o ToString(r)])]
     ELSE s1

\* the Drop handler of a closure's captures: defers another closure
DropHandler(s, c) ==
  IF c.od = 0 THEN s
  ELSE LET ch == Clo("item", c.od, 0, FALSE)
           s1 == Emit(Emit(s, [e |-> "dh", item |-> c.id]),
                      [e |-> "sub", q |-> "main", item |-> c.od, hr |-> << >>, via |-> "deferrer"])
           s2 == IF s.alive THEN [s1 EXCEPT !.deferQ = Append(@, ch)] ELSE s1
       IN Emit(s2, [e |-> "dhe", item |-> c.id])

\* a closure / message dropped un-run: its token, then what it holds
DropClosures(s, cs) ==
  IF cs = << >> THEN s ELSE
  LET c == Head(cs)
      s1 == IF c.k \in {"item", "call"} THEN DropHandler(Emit(s, [e |-> "drop", item |-> c.id, ran |-> FALSE]), c) ELSE s
      s1b == IF c.k = "dkill" THEN DropSlabOwner(s1, c.aid) ELSE s1     \* the owner kill! had taken
      s2 == FoldSet(LAMBDA o, acc : DropOwner(acc, o), s1b, c.ho)
      s3 == FoldSet(LAMBDA r, acc : DropRet(acc, r), s2, c.hr)
  IN DropClosures(s3, Tail(cs))

\* the actor's own value: VTok, then owners kept in state, then kept Rets
\* the owner kept in a slab slot goes away (slab dropped with the value, or slot removed)
DropSlabOwner(s, c) ==
  LET s1 == [s EXCEPT !.actors[c].strong = @ - 1]
  IN IF s1.actors[c].strong = 0 /\ s.alive
     THEN [s1 EXCEPT !.deferQ = Append(@, Clo("term", 0, c, FALSE))]
     ELSE s1

DropValue(s, a) ==
  LET s0 == Emit(s, [e |-> "vdrop", aid |-> a])
      kids == SelectSeq(s.actors[a].slab, LAMBDA c : c # 0)
      \* what the value defers from its Drop handler (after the Stakker is gone: into the void)
      sv == FoldSeq(LAMBDA c, acc : LET e1 == Emit(acc, [e |-> "sub", q |-> "main", item |-> c.id, hr |-> << >>, via |-> "actor"])
                                    IN IF acc.alive THEN [e1 EXCEPT !.deferQ = Append(@, c)] ELSE e1,
                    s0, s.actors[a].vd)
      s1 == [FoldSeq(LAMBDA c, acc : DropSlabOwner(acc, c), Emit(sv, [e |-> "slabdrop", aid |-> a]), kids) EXCEPT !.actors[a].slab = << >>, !.actors[a].sfree = << >>,
                                                                              !.actors[a].vd = << >>]
      s2 == FoldSeq(LAMBDA o, acc : DropOwner(acc, o), s1, s.actors[a].kept)
      s3 == FoldSeq(LAMBDA r, acc : DropRet(acc, r), s2, s.actors[a].keptR)
  IN [s3 EXCEPT !.actors[a].kept = << >>, !.actors[a].keptR = << >>, !.actors[a].hasval = FALSE]

DTerminate(s, a, cause) ==
  LET act == s.actors[a]
      \* to_zombie: set packed state, drop inner (value or held queue), take notifier
      s1 == [s EXCEPT !.actors[a].bits = "zombie", !.actors[a].inner = "zombie", !.actors[a].prepQ = << >>]
      s2 == IF act.inner = "ready" THEN DropValue(s1, a)
            ELSE IF act.inner = "prep" THEN DropClosures(s1, act.prepQ) ELSE s1
      marker == IF cause = "stopped" THEN "" ELSE IF cause = "dropped" THEN "dropped"
                ELSE IF SubSeq(cause, 1, 6) = "failed" THEN "failed" ELSE "killed"
      s3 == IF act.notify /\ LogAllowed("close")
            THEN Emit(s2, [e |-> "logrec", id |-> act.logid, level |-> "close", parent |-> 0, marker |-> marker])
            ELSE s2
      \* a slab child's notifier first defers its removal from the parent's slab (an apply on the parent)
      s4 == IF act.notify /\ act.slabOf # 0 /\ s.alive
            THEN [s3 EXCEPT !.deferQ = Append(@, [Clo("slabrm", 0, act.slabOf, FALSE) EXCEPT !.child = a])]
            ELSE s3
      \* ret_fail! passes every end of the child on to the parent, ret_failthru! only a failure
      pass == act.pn = "fail" \/ (act.pn = "failthru" /\ Len(cause) >= 6 /\ SubSeq(cause, 1, 6) = "failed")
      pcode == (IF act.pn = "fail" THEN "pf" ELSE "pt") \o ToString(a)
      s5 == Emit([s4 EXCEPT !.actors[a].notify = FALSE],
                 [e |-> "notify", aid |-> a, cause |-> cause, zombie |-> TRUE])
  IN IF act.notify
     THEN IF pass /\ act.par # 0 /\ s.alive
          THEN [s5 EXCEPT !.deferQ = Append(@, [Clo("failcall", 0, act.par, FALSE) EXCEPT !.code = pcode])]
          ELSE s5
     ELSE s2

(* ---------------------------------------------------------------- *)
(* effects available inside bodies                                   *)
(* ---------------------------------------------------------------- *)
\* context: [k |-> "top" | "item" | "meth" | "prep", aid]
HasStakker(cx) == cx.k \in {"top", "item"}
InActor(cx) == cx.k \in {"meth", "prep"}

NewItem(s) == Clo("item", s.nextId, 0, FALSE)

ActorsOf(s) == DOMAIN s.actors
TopOwners(s) == {o \in DOMAIN s.owners : s.owners[o].loc = "top"}
TopRets(s) == {r \in DOMAIN s.rets : s.rets[r].loc = "top"}

\* the set of effect descriptors enabled in state s under context cx
Effects(s, cx) ==
  LET allowed == IF cx.k = "top" THEN TopOps ELSE IF cx.k = "item" THEN BodyOps ELSE MethOps
      E(n) == n \in allowed
  IN
     (IF E("defer") /\ Budget(s) THEN {[op |-> "defer"]} ELSE {})
  \cup (IF E("deferod") /\ s.nextId + 1 <= MaxItems THEN {[op |-> "deferod"]} ELSE {})
  \cup (IF E("lazyod") /\ s.nextId + 1 <= MaxItems THEN {[op |-> "lazyod"]} ELSE {})
  \cup (IF E("lazy") /\ Budget(s) /\ cx.k # "top-never" THEN {[op |-> "lazy"]} ELSE {})
  \cup (IF E("idle") /\ Budget(s) THEN {[op |-> "idle"]} ELSE {})
  \cup (IF E("after") /\ Budget(s) THEN {[op |-> "after", dd |-> dd] : dd \in {0, 2}} ELSE {})
  \cup (IF E("acreate") /\ Budget(s) /\ s.nextAid <= MaxActors /\ s.nextOid <= MaxOwners
        THEN {[op |-> "acreate", pn |-> pn] : pn \in IF cx.k = "meth" /\ E("pnotify") THEN {"", "fail", "failthru"} ELSE {""}} ELSE {})
  \cup (IF E("adefer") /\ Budget(s) THEN {[op |-> "adefer", aid |-> a] : a \in ActorsOf(s)} ELSE {})
  \cup (IF E("vdefer") /\ cx.k = "meth" /\ Budget(s) THEN {[op |-> "vdefer"]} ELSE {})
  \cup (IF E("screate") /\ cx.k = "meth" /\ Budget(s) /\ s.nextAid <= MaxActors
        THEN {[op |-> "screate", pn |-> pn] : pn \in IF E("pnotify") THEN {"", "fail", "failthru"} ELSE {""}} ELSE {})
  \cup (IF E("slablen") /\ cx.k = "top" THEN {[op |-> "slablen", aid |-> a] : a \in ActorsOf(s)} ELSE {})
  \cup (IF E("call") /\ Budget(s)
        THEN {[op |-> "call", aid |-> a, prep |-> p, ho |-> ho, hr |-> hr] :
                a \in ActorsOf(s), p \in {FALSE}, ho \in {{}}, hr \in {{}} \cup {{r} : r \in TopRets(s)}}
        ELSE {})
  \cup (IF E("pcall") /\ Budget(s)
        THEN {[op |-> "call", aid |-> a, prep |-> TRUE, ho |-> {}, hr |-> {}] :
                a \in IF InActor(cx) THEN {cx.aid} ELSE ActorsOf(s)}
        ELSE {})
  \cup (IF E("callown") /\ Budget(s)
        THEN UNION {{[op |-> "call", aid |-> a, prep |-> FALSE, ho |-> {o}, hr |-> {}] :
                       o \in {x \in TopOwners(s) : s.owners[x].aid >= a}} : a \in ActorsOf(s)}
        ELSE {})
  \cup (IF E("stop") /\ InActor(cx) THEN {[op |-> "stop"]} ELSE {})
  \cup (IF E("fail") /\ InActor(cx) THEN {[op |-> "fail"]} ELSE {})
  \cup (IF E("owndrop") THEN {[op |-> "owndrop", oid |-> o] : o \in TopOwners(s)} ELSE {})
  \cup (IF E("ownclone") /\ s.nextOid <= MaxOwners
        THEN {[op |-> "ownclone", oid |-> o] : o \in TopOwners(s)} ELSE {})
  \cup (IF E("keepown") /\ cx.k = "meth"
        THEN {[op |-> "keepown", oid |-> o] : o \in {x \in TopOwners(s) : s.owners[x].aid > cx.aid}} ELSE {})
  \cup (IF E("dkill") THEN {[op |-> "dkill", oid |-> o] : o \in TopOwners(s)} ELSE {})
  \cup (IF E("kill") /\ HasStakker(cx) THEN {[op |-> "kill", oid |-> o] : o \in TopOwners(s)} ELSE {})
  \cup (IF E("mkret") /\ s.nextRid <= MaxRets
        THEN {[op |-> "mkret", kind |-> "plain", aid |-> 0]}
             \cup {[op |-> "mkret", kind |-> kd, aid |-> a] : kd \in {"to", "someto", "toprep"}, a \in ActorsOf(s)}
             \cup (IF cx.k = "meth" THEN {[op |-> "mkret", kind |-> "retfail", aid |-> cx.aid]} ELSE {})
        ELSE {})
  \cup (IF E("ret") THEN {[op |-> "ret", rid |-> r] : r \in TopRets(s)} ELSE {})
  \cup (IF E("retdrop") THEN {[op |-> "retdrop", rid |-> r] : r \in TopRets(s)} ELSE {})
  \cup (IF E("keepret") /\ cx.k = "meth" THEN {[op |-> "keepret", rid |-> r] : r \in TopRets(s)} ELSE {})
  \cup (IF E("apply") /\ HasStakker(cx) /\ s.nextId <= MaxItems
        THEN {[op |-> "apply", aid |-> a, qb |-> qb] : a \in ActorsOf(s), qb \in {"none", "stop", "fail"}} ELSE {})
  \cup (IF E("query") /\ HasStakker(cx) /\ s.nextId <= MaxItems
        THEN {[op |-> "query", aid |-> a, qb |-> qb] : a \in ActorsOf(s), qb \in {"none", "stop", "fail"}} ELSE {})
  \cup (IF E("mkfwd") /\ s.nextFid <= MaxRets THEN {[op |-> "mkfwd", aid |-> a] : a \in ActorsOf(s)} ELSE {})
  \cup (IF E("fwd") /\ s.nextVal <= MaxItems THEN {[op |-> "fwd", fid |-> f] : f \in DOMAIN s.fwds} ELSE {})
  \cup (IF E("zombie") /\ cx.k = "top" THEN {[op |-> "zombie", aid |-> a] : a \in ActorsOf(s)} ELSE {})

SubEv(q, c) ==
  IF c.k = "call" THEN [e |-> "sub", q |-> q, item |-> c.id, aid |-> c.aid, prep |-> c.prep, hr |-> SetToSeq(c.hr)]
  ELSE [e |-> "sub", q |-> q, item |-> c.id, hr |-> << >>]

ItemRef(id) == [id |-> id]

ApplyEff(s, cx, f) ==
  CASE f.op = "defer" ->
         LET c == NewItem(s) IN
         Op(Emit([s EXCEPT !.deferQ = Append(@, c), !.nextId = @ + 1], [SubEv("main", c) EXCEPT !.q = "main"] @@ [via |-> "core"]),
            [op |-> "defer", item |-> c.id])
    [] f.op = "deferod" ->
         LET c == [NewItem(s) EXCEPT !.od = s.nextId + 1] IN
         Op(Emit([s EXCEPT !.deferQ = Append(@, c), !.nextId = @ + 2], [SubEv("main", c) EXCEPT !.q = "main"] @@ [via |-> "core"]),
            [op |-> "defer", item |-> c.id, od |-> c.od])
    [] f.op = "lazyod" ->
         LET c == [NewItem(s) EXCEPT !.od = s.nextId + 1] IN
         Op(Emit([s EXCEPT !.lazyQ = Append(@, c), !.nextId = @ + 2], SubEv("lazy", c)),
            [op |-> "lazy", item |-> c.id, od |-> c.od])
    [] f.op = "lazy" ->
         LET c == NewItem(s) IN
         Op(Emit([s EXCEPT !.lazyQ = Append(@, c), !.nextId = @ + 1], SubEv("lazy", c)), [op |-> "lazy", item |-> c.id])
    [] f.op = "idle" ->
         LET c == NewItem(s) IN
         Op(Emit([s EXCEPT !.idleQ = Append(@, c), !.nextId = @ + 1], SubEv("idle", c)), [op |-> "idle", item |-> c.id])
    [] f.op = "after" ->
         LET c == NewItem(s)
             at == s.now + f.dd IN
         Op(Emit([s EXCEPT !.timers = Append(@, [at |-> at, c |-> c, tid |-> s.nextTid]), !.nextId = @ + 1, !.nextTid = @ + 1],
                 [e |-> "tadd", tid |-> s.nextTid, kind |-> "fixed", t |-> T(at), item |-> c.id, now |-> T(s.now)]),
            [op |-> "after", tid |-> s.nextTid, dd |-> f.dd, item |-> c.id])
    [] f.op = "acreate" ->
         LET a == s.nextAid
             o == s.nextOid
             c == <<Clo("call", s.nextId, a, TRUE)>>
             lid == IF Logger THEN s.nextLog ELSE 0
             pid == IF InActor(cx) THEN s.actors[cx.aid].logid ELSE 0
             act == [inner |-> "prep", bits |-> "prep", strong |-> 1, prepQ |-> << >>, notify |-> TRUE,
                     hasval |-> FALSE, kept |-> << >>, keptR |-> << >>, die |-> "", logid |-> lid,
                     slabOf |-> 0, slab |-> << >>, sfree |-> << >>, vd |-> << >>,
                     pn |-> IF cx.k = "meth" THEN f.pn ELSE "", par |-> IF InActor(cx) THEN cx.aid ELSE 0]
             s0 == IF LogAllowed("open")
                   THEN Emit(s, [e |-> "logrec", id |-> lid, level |-> "open", parent |-> pid, marker |-> ""])
                   ELSE s
             s1 == [s0 EXCEPT !.nextLog = @ + 1, !.actors = @ @@ (a :> act), !.owners = @ @@ (o :> [aid |-> a, loc |-> "top"]),
                             !.nextAid = @ + 1, !.nextOid = @ + 1, !.nextId = @ + 1,
                             !.deferQ = Append(@, c[1])]
             s2 == Emit(s1, [e |-> "acreate", aid |-> a, oid |-> o, parent |-> IF InActor(cx) THEN cx.aid ELSE 0,
                             slab |-> FALSE, logid |-> lid, pnotify |-> act.pn])
         IN Op(Emit(s2, SubEv("main", c[1])), [op |-> "acreate", aid |-> a, oid |-> o, item |-> c[1].id, pnotify |-> act.pn])
    [] f.op = "adefer" ->
         \* Actor::defer: needs only a reference to the actor, in whatever state it is
         LET c == NewItem(s) IN
         Op(Emit([s EXCEPT !.deferQ = Append(@, c), !.nextId = @ + 1], [SubEv("main", c) EXCEPT !.q = "main"] @@ [via |-> "actor"]),
            [op |-> "defer", via |-> "actor", aid |-> f.aid, item |-> c.id])
    [] f.op = "vdefer" ->
         \* the actor's value will defer this closure from its own Drop (Actor::defer, no Core access)
         LET c == NewItem(s) IN
         Op([s EXCEPT !.actors[cx.aid].vd = Append(@, c), !.nextId = @ + 1], [op |-> "vdefer", item |-> c.id])
    [] f.op = "screate" ->
         \* ActorOwnSlab::add (actor.rs): the child's only owner lives in the parent's slab, in the
         \* slot the slab hands out (most recently vacated first, else a new one at the end)
         LET a == s.nextAid
             p == cx.aid
             c == Clo("call", s.nextId, a, TRUE)
             lid == IF Logger THEN s.nextLog ELSE 0
             par == s.actors[p]
             key == IF par.sfree # << >> THEN Head(par.sfree) ELSE Len(par.slab) + 1
             act == [inner |-> "prep", bits |-> "prep", strong |-> 1, prepQ |-> << >>, notify |-> TRUE,
                     hasval |-> FALSE, kept |-> << >>, keptR |-> << >>, die |-> "", logid |-> lid,
                     slabOf |-> p, slab |-> << >>, sfree |-> << >>, vd |-> << >>, pn |-> f.pn, par |-> p]
             s0 == IF LogAllowed("open")
                   THEN Emit(s, [e |-> "logrec", id |-> lid, level |-> "open", parent |-> par.logid, marker |-> ""])
                   ELSE s
             s1 == [s0 EXCEPT !.nextLog = @ + 1, !.actors = @ @@ (a :> act),
                             !.nextAid = @ + 1, !.nextId = @ + 1, !.deferQ = Append(@, c)]
             s2 == [s1 EXCEPT !.race = @ \/ \E i \in 1..Len(par.slab) : par.slab[i] # 0 /\ s.actors[par.slab[i]].bits = "zombie",
                             !.actors[p].slab = IF key > Len(par.slab) THEN Append(par.slab, a) ELSE [par.slab EXCEPT ![key] = a],
                             !.actors[p].sfree = IF par.sfree # << >> THEN Tail(par.sfree) ELSE par.sfree]
             s3 == Emit(s2, [e |-> "acreate", aid |-> a, oid |-> 0, parent |-> p, slab |-> TRUE, logid |-> lid, pnotify |-> f.pn])
         IN Op(Emit(s3, SubEv("main", c)), [op |-> "acreate", aid |-> a, oid |-> 0, item |-> c.id, slab |-> TRUE, pnotify |-> f.pn])
    [] f.op = "slablen" ->
         LET act == s.actors[f.aid]
             rdy == act.inner = "ready"
             n == IF rdy THEN Cardinality({i \in 1..Len(act.slab) : act.slab[i] # 0}) ELSE 0
             z == IF rdy THEN Cardinality({i \in 1..Len(act.slab) : act.slab[i] # 0 /\ s.actors[act.slab[i]].bits = "zombie"}) ELSE 0
         IN Op(Emit(s, [e |-> "slablen", aid |-> f.aid, ready |-> rdy, len |-> n, iter |-> n, empty |-> (n = 0), zombies |-> z]),
               [op |-> "slablen", aid |-> f.aid])
    [] f.op = "call" ->
         LET c == [Clo("call", s.nextId, f.aid, f.prep) EXCEPT !.ho = f.ho, !.hr = f.hr]
             s1 == [s EXCEPT !.deferQ = Append(@, c), !.nextId = @ + 1,
                             !.owners = [o \in DOMAIN @ |-> IF o \in f.ho THEN [@[o] EXCEPT !.loc = "msg"] ELSE @[o]],
                             !.rets = [r \in DOMAIN @ |-> IF r \in f.hr THEN [@[r] EXCEPT !.loc = "msg"] ELSE @[r]]]
         IN Op(Emit(s1, SubEv("main", c)),
               [op |-> "call", aid |-> f.aid, prep |-> f.prep, item |-> c.id, ho |-> f.ho, hr |-> f.hr])
    [] f.op = "stop" ->
         Op(Emit([s EXCEPT !.actors[cx.aid].die = IF @ = "" THEN "stopped" ELSE @], [e |-> "stop", aid |-> cx.aid]),
            [op |-> "stop"])
    [] f.op = "fail" ->
         LET code == "f" \o ToString(s.nextId + 10 * Len(s.ops)) IN
         Op(Emit([s EXCEPT !.actors[cx.aid].die = IF @ = "" THEN "failed:" \o code ELSE @],
                 [e |-> "fail", aid |-> cx.aid, code |-> code]),
            [op |-> "fail", code |-> code])
    [] f.op = "owndrop" -> Op(DropOwner(s, f.oid), [op |-> "owndrop", oid |-> f.oid])
    [] f.op = "ownclone" ->
         LET o2 == s.nextOid
             a == s.owners[f.oid].aid IN
         Op(Emit([s EXCEPT !.owners = @ @@ (o2 :> [aid |-> a, loc |-> "top"]), !.nextOid = @ + 1,
                           !.actors[a].strong = @ + 1],
                 [e |-> "ownclone", oid |-> f.oid, oid2 |-> o2, aid |-> a]),
            [op |-> "ownclone", oid |-> f.oid, oid2 |-> o2])
    [] f.op = "keepown" ->
         Op(Emit([s EXCEPT !.owners[f.oid].loc = "state", !.actors[cx.aid].kept = Append(@, f.oid)],
                 [e |-> "keepown", oid |-> f.oid, aid |-> s.owners[f.oid].aid, by |-> cx.aid]),
            [op |-> "keepown", oid |-> f.oid])
    [] f.op = "dkill" ->
         \* kill!(owner, ..): owned() + a deferred closure that kills through that extra owner and then drops it
         LET a == s.owners[f.oid].aid
             code == "d" \o ToString(f.oid) \o ToString(Len(s.ops))
             c == [Clo("dkill", 0, a, FALSE) EXCEPT !.code = code]
             s1 == Emit([s EXCEPT !.actors[a].strong = @ + 1], [e |-> "dkill", aid |-> a, code |-> code])
         IN Op(IF s.alive THEN [s1 EXCEPT !.deferQ = Append(@, c)] ELSE s1, [op |-> "dkill", oid |-> f.oid, code |-> code])
    [] f.op = "kill" ->
         LET a == s.owners[f.oid].aid
             code == "k" \o ToString(f.oid)
             s1 == Emit(s, [e |-> "kill", aid |-> a, code |-> code])
             s2 == DTerminate(s1, a, "killed:" \o code)
         IN Op(Emit(s2, [e |-> "kille", aid |-> a]), [op |-> "kill", oid |-> f.oid, code |-> code])
    [] f.op = "mkret" ->
         LET r == s.nextRid IN
         Op(Emit([s EXCEPT !.rets = @ @@ (r :> [kind |-> f.kind, aid |-> f.aid, loc |-> "top"]), !.nextRid = @ + 1],
                 [e |-> "mkret", rid |-> r, kind |-> f.kind, aid |-> f.aid]),
            [op |-> "mkret", rid |-> r, kind |-> f.kind, aid |-> f.aid])
    [] f.op = "ret" ->
         LET rt == s.rets[f.rid]
             v == 10 * f.rid
             s1 == Emit([s EXCEPT !.rets[f.rid].loc = "gone"], [e |-> "ret", rid |-> f.rid, val |-> v])
             s2 == IF rt.kind = "plain" THEN Emit(s1, [e |-> "retcb", rid |-> f.rid, has |-> TRUE, val |-> v])
                   ELSE IF rt.kind = "retfail"
                   THEN (IF s.alive THEN [s1 EXCEPT !.deferQ = Append(@, [Clo("failcall", 0, rt.aid, FALSE) EXCEPT !.code = "rf" \o ToString(f.rid)])]
                         ELSE s1)
                   ELSE IF s.alive
                   THEN [s1 EXCEPT !.deferQ = Append(@, [Clo("retcall", 0, rt.aid, rt.kind = "toprep") EXCEPT !.rid = f.rid, !.has = TRUE, !.val = v])]
                   ELSE s1
         IN Op(s2, [op |-> "ret", rid |-> f.rid, val |-> v])
    [] f.op = "retdrop" -> Op(DropRet(s, f.rid), [op |-> "retdrop", rid |-> f.rid])
    [] f.op = "keepret" ->
         Op(Emit([s EXCEPT !.rets[f.rid].loc = "state", !.actors[cx.aid].keptR = Append(@, f.rid)],
                 [e |-> "keepret", rid |-> f.rid, by |-> cx.aid]),
            [op |-> "keepret", rid |-> f.rid])
    [] f.op = "apply" ->
         \* Actor::apply, what lazy!/idle!/after!([actor], method()) do when their turn comes: runs now on a
         \* Ready actor, is held for a Prep one (its body is then chosen when it runs), is released on a Zombie
         LET a == f.aid
             id == s.nextId
             code == "p" \o ToString(id)
             s0 == Emit([s EXCEPT !.nextId = @ + 1], [e |-> "apply", item |-> id, aid |-> a])
             oprec == [op |-> "apply", aid |-> a, item |-> id, qb |-> f.qb, code |-> code]
         IN IF s.actors[a].inner = "ready"
            THEN LET s1 == Emit(s0, [e |-> "x", item |-> id, now |-> T(s.now), aid |-> a, prep |-> FALSE])
                     s2 == IF f.qb = "stop"
                           THEN Emit([s1 EXCEPT !.actors[a].die = IF @ = "" THEN "stopped" ELSE @], [e |-> "stop", aid |-> a])
                           ELSE IF f.qb = "fail"
                           THEN Emit([s1 EXCEPT !.actors[a].die = IF @ = "" THEN "failed:" \o code ELSE @],
                                     [e |-> "fail", aid |-> a, code |-> code])
                           ELSE s1
                     s3 == Emit(Emit(s2, [e |-> "xe", item |-> id]), [e |-> "drop", item |-> id, ran |-> TRUE])
                     die == s3.actors[a].die
                 IN Op(IF die # "" THEN DTerminate([s3 EXCEPT !.actors[a].die = ""], a, die) ELSE s3, oprec)
            ELSE IF s.actors[a].inner = "prep"
            THEN Op([s0 EXCEPT !.actors[a].prepQ = Append(@, Clo("call", id, a, FALSE))], [oprec EXCEPT !.qb = "held"])
            ELSE Op(Emit(s0, [e |-> "drop", item |-> id, ran |-> FALSE]), oprec)
    [] f.op = "query" ->
         \* Actor::query (actor.rs): borrow_ready, run, terminate if cx.die, Some(rv); else None
         LET a == f.aid
             id == s.nextId
             code == "q" \o ToString(id)
             s0 == Emit([s EXCEPT !.nextId = @ + 1], [e |-> "query", item |-> id, aid |-> a])
             oprec == [op |-> "query", aid |-> a, item |-> id, qb |-> f.qb, code |-> code]
         IN IF s.actors[a].inner = "ready"
            THEN LET s1 == Emit(s0, [e |-> "x", item |-> id, now |-> T(s.now), aid |-> a, prep |-> FALSE])
                     s2 == IF f.qb = "stop"
                           THEN Emit([s1 EXCEPT !.actors[a].die = IF @ = "" THEN "stopped" ELSE @], [e |-> "stop", aid |-> a])
                           ELSE IF f.qb = "fail"
                           THEN Emit([s1 EXCEPT !.actors[a].die = IF @ = "" THEN "failed:" \o code ELSE @],
                                     [e |-> "fail", aid |-> a, code |-> code])
                           ELSE s1
                     s3 == Emit(Emit(s2, [e |-> "xe", item |-> id]), [e |-> "drop", item |-> id, ran |-> TRUE])
                     die == s3.actors[a].die
                     s4 == IF die # "" THEN DTerminate([s3 EXCEPT !.actors[a].die = ""], a, die) ELSE s3
                 IN Op(Emit(s4, [e |-> "querye", item |-> id, aid |-> a, some |-> TRUE, okval |-> TRUE]), oprec)
            ELSE Op(Emit(Emit(s0, [e |-> "drop", item |-> id, ran |-> FALSE]),
                         [e |-> "querye", item |-> id, aid |-> a, some |-> FALSE, okval |-> TRUE]), oprec)
    [] f.op = "mkfwd" ->
         LET fid == s.nextFid IN
         Op(Emit([s EXCEPT !.fwds = @ @@ (fid :> f.aid), !.nextFid = @ + 1], [e |-> "mkfwd", fid |-> fid, aid |-> f.aid]),
            [op |-> "mkfwd", fid |-> fid, aid |-> f.aid])
    [] f.op = "fwd" ->
         \* Fwd::fwd: the call is deferred through the target actor's Deferrer (into the void once the Stakker is gone)
         LET val == 50 + s.nextVal
             c == [Clo("fwdcall", 0, s.fwds[f.fid], FALSE) EXCEPT !.rid = f.fid, !.val = val]
             s1 == Emit([s EXCEPT !.nextVal = @ + 1], [e |-> "fwd", fid |-> f.fid, val |-> val])
         IN Op(IF s.alive THEN [s1 EXCEPT !.deferQ = Append(@, c)] ELSE s1, [op |-> "fwd", fid |-> f.fid, val |-> val])
    [] f.op = "zombie" ->
         Op(Emit(s, [e |-> "zombie", aid |-> f.aid, res |-> s.actors[f.aid].bits = "zombie"]),
            [op |-> "zombie", aid |-> f.aid])

\* all states reachable by running a body of at most n effects in context cx
RECURSIVE Bodies(_, _, _)
Bodies(s, cx, n) ==
  IF n = 0 THEN {s}
  ELSE {s} \cup UNION {Bodies(ApplyEff(s, cx, f), cx, n - 1) : f \in Effects(s, cx)}

(* ---------------------------------------------------------------- *)
(* executing one closure, as the queue's call() does                  *)
(* ---------------------------------------------------------------- *)
\* handles carried by a message become reachable by the method's body; what
\* is left when it returns is dropped with the message (owners first is the
\* harness's order: rets, then owners)
Unpack(s, c) ==
  [s EXCEPT !.owners = [o \in DOMAIN @ |-> IF o \in c.ho THEN [@[o] EXCEPT !.loc = "top"] ELSE @[o]],
            !.rets = [r \in DOMAIN @ |-> IF r \in c.hr THEN [@[r] EXCEPT !.loc = "top"] ELSE @[r]]]
Leftovers(s, c) ==
  LET s1 == FoldSet(LAMBDA r, acc : IF acc.rets[r].loc = "top" THEN DropRet(acc, r) ELSE acc, s, c.hr)
  IN FoldSet(LAMBDA o, acc : IF acc.owners[o].loc = "top" THEN DropOwner(acc, o) ELSE acc, s1, c.ho)

\* result: set of [s, sc] where sc is the script produced for c.id
RunBody(s, c, cx, xev, somes) ==
  { LET s1 == Leftovers(b, c) IN
      [s |-> [DropHandler(Emit(Emit(s1, IF cx.k = "prep" THEN [e |-> "xe", item |-> c.id, some |-> sm] ELSE [e |-> "xe", item |-> c.id]),
                                [e |-> "drop", item |-> c.id, ran |-> TRUE]), c) EXCEPT !.ops = << >>],
       ops |-> b.ops, some |-> sm]
    : b \in Bodies([Emit(Unpack(s, c), xev) EXCEPT !.ops = << >>], cx, MaxBody), sm \in somes }

ExecClosure(s, c) ==
  CASE c.k = "item" ->
         { [s |-> r.s, id |-> c.id, ops |-> r.ops, ret |-> ""] :
             r \in RunBody(s, c, [k |-> "item", aid |-> 0], [e |-> "x", item |-> c.id, now |-> T(s.now)], {FALSE}) }
    [] c.k = "call" /\ ~c.prep ->
         LET act == s.actors[c.aid] IN
         IF act.inner = "ready" THEN
            { LET a == c.aid
                  die == r.s.actors[a].die
                  s2 == IF die # "" THEN DTerminate([r.s EXCEPT !.actors[a].die = ""], a, die) ELSE r.s
              IN [s |-> s2, id |-> c.id, ops |-> r.ops, ret |-> ""] :
              r \in RunBody(s, c, [k |-> "meth", aid |-> c.aid],
                            [e |-> "x", item |-> c.id, now |-> T(s.now), aid |-> c.aid, prep |-> FALSE], {FALSE}) }
         ELSE IF act.inner = "prep" THEN
            { [s |-> [s EXCEPT !.actors[c.aid].prepQ = Append(@, c)], id |-> 0, ops |-> << >>, ret |-> ""] }
         ELSE { [s |-> DropClosures(s, <<c>>), id |-> 0, ops |-> << >>, ret |-> ""] }
    [] c.k = "call" /\ c.prep ->
         LET act == s.actors[c.aid] IN
         IF act.bits = "prep" THEN
            { LET a == c.aid
                  die == r.s.actors[a].die
                  s2 == IF die # ""
                        THEN \* the failure takes precedence; a value returned nevertheless is just dropped
                             LET tt == DTerminate([r.s EXCEPT !.actors[a].die = ""], a, die)
                             IN IF r.some THEN Emit(Emit(tt, [e |-> "vdrop", aid |-> a]), [e |-> "slabdrop", aid |-> a]) ELSE tt
                        ELSE IF r.some THEN
                          \* to_ready: install the value, mark Ready, flush the held calls now
                          IF r.s.actors[a].inner = "prep"
                          THEN [r.s EXCEPT !.actors[a].inner = "ready", !.actors[a].bits = "ready", !.actors[a].hasval = TRUE,
                                           !.sync = r.s.actors[a].prepQ \o @, !.actors[a].prepQ = << >>]
                          ELSE r.s
                        ELSE r.s
              IN [s |-> s2, id |-> c.id, ops |-> r.ops, ret |-> IF r.some THEN "some" ELSE "none"] :
              r \in RunBody(s, c, [k |-> "prep", aid |-> c.aid],
                            [e |-> "x", item |-> c.id, now |-> T(s.now), aid |-> c.aid, prep |-> TRUE], {TRUE, FALSE}) }
         ELSE { [s |-> DropClosures(s, <<c>>), id |-> 0, ops |-> << >>, ret |-> ""] }
    [] c.k = "term" ->
         { [s |-> DTerminate(s, c.aid, "dropped"), id |-> 0, ops |-> << >>, ret |-> ""] }
    [] c.k = "failcall" ->
         \* parent.apply(|_, cx, _| cx.fail_string(..)): fails a Ready parent, is held for a Prep one, nothing on a Zombie
         LET par == s.actors[c.aid] IN
         IF par.inner = "ready"
         THEN { [s |-> DTerminate(s, c.aid, "failed:" \o c.code), id |-> 0, ops |-> << >>, ret |-> ""] }
         ELSE IF par.inner = "prep"
         THEN { [s |-> [s EXCEPT !.actors[c.aid].prepQ = Append(@, c)], id |-> 0, ops |-> << >>, ret |-> ""] }
         ELSE { [s |-> s, id |-> 0, ops |-> << >>, ret |-> ""] }
    [] c.k = "dkill" ->
         { [s |-> DropSlabOwner(DTerminate(s, c.aid, "killed:" \o c.code), c.aid), id |-> 0, ops |-> << >>, ret |-> ""] }
    [] c.k = "slabrm" ->
         \* parent.apply(|this| slab.remove(key)): now if Ready, held if Prep, nothing if Zombie
         LET par == s.actors[c.aid] IN
         IF par.inner = "ready" THEN
            LET key == CHOOSE i \in 1..Len(par.slab) : par.slab[i] = c.child
                s1 == [s EXCEPT !.actors[c.aid].slab = [par.slab EXCEPT ![key] = 0],
                                !.actors[c.aid].sfree = <<key>> \o par.sfree]
            IN { [s |-> DropSlabOwner(s1, c.child), id |-> 0, ops |-> << >>, ret |-> ""] }
         ELSE IF par.inner = "prep"
         THEN { [s |-> [s EXCEPT !.actors[c.aid].prepQ = Append(@, c)], id |-> 0, ops |-> << >>, ret |-> ""] }
         ELSE { [s |-> s, id |-> 0, ops |-> << >>, ret |-> ""] }
    [] c.k = "fwdcall" ->
         LET act == s.actors[c.aid] IN
         IF act.inner = "ready"
         THEN { [s |-> Emit(s, [e |-> "fcall", fid |-> c.rid, aid |-> c.aid, val |-> c.val, now |-> T(s.now)]),
                 id |-> 0, ops |-> << >>, ret |-> ""] }
         ELSE IF act.inner = "prep"
         THEN { [s |-> [s EXCEPT !.actors[c.aid].prepQ = Append(@, c)], id |-> 0, ops |-> << >>, ret |-> ""] }
         ELSE { [s |-> s, id |-> 0, ops |-> << >>, ret |-> ""] }
    [] c.k = "retcall" /\ c.prep ->
         \* a Ret aimed at a Prep-style function (Ret::to_actor_prep): apply_prep runs it only while
         \* the packed state says Prep, otherwise it is a no-op (the harness's target stays in Prep)
         LET act == s.actors[c.aid] IN
         IF act.bits = "prep"
         THEN { [s |-> Emit(s, [e |-> "rcall", rid |-> c.rid, aid |-> c.aid, has |-> c.has, val |-> c.val, now |-> T(s.now)]),
                 id |-> 0, ops |-> << >>, ret |-> ""] }
         ELSE { [s |-> s, id |-> 0, ops |-> << >>, ret |-> ""] }
    [] c.k = "retcall" ->
         LET act == s.actors[c.aid] IN
         IF act.inner = "ready"
         THEN { [s |-> Emit(s, [e |-> "rcall", rid |-> c.rid, aid |-> c.aid, has |-> c.has, val |-> c.val, now |-> T(s.now)]),
                 id |-> 0, ops |-> << >>, ret |-> ""] }
         ELSE IF act.inner = "prep"
         THEN { [s |-> [s EXCEPT !.actors[c.aid].prepQ = Append(@, c)], id |-> 0, ops |-> << >>, ret |-> ""] }
         ELSE { [s |-> s, id |-> 0, ops |-> << >>, ret |-> ""] }

(* ---------------------------------------------------------------- *)
(* the monitor is advanced with the events of each step              *)
(* ---------------------------------------------------------------- *)
Fold(m, evs) ==
  FoldSeq(LAMBDA e, acc : LET r == Apply(acc.st, e) IN [st |-> r.st, bad |-> acc.bad \cup r.bad],
          [st |-> m, bad |-> {}], evs)

Commit(s, id, ops, ret) ==
  LET r == Fold(mon, s.evs) IN
  /\ d' = [s EXCEPT !.evs = << >>, !.ops = << >>]
  /\ mon' = r.st
  /\ bad' = bad \cup r.bad
  /\ script' = IF id = -1 THEN script
               ELSE IF id \in DOMAIN script THEN [script EXCEPT ![id] = @ \o ops]
               ELSE script @@ (id :> ops)
  /\ hist' = IF ret # "" THEN Append(hist, <<id, ret>>) ELSE hist
  /\ elog' = elog \o s.evs

(* ---------------------------------------------------------------- *)
(* top level                                                         *)
(* ---------------------------------------------------------------- *)
TopOp ==
  /\ d.pc = "top" /\ d.alive /\ d.topn < MaxTop
  /\ \E f \in Effects(d, [k |-> "top", aid |-> 0]) :
       LET s == ApplyEff([d EXCEPT !.topn = @ + 1], [k |-> "top", aid |-> 0], f)
       IN Commit(s, 0, s.ops, "")

\* run(now, idle), first part: idle item, swap, time, timers  (core.rs 106-131)
RunBegin ==
  /\ d.pc = "top" /\ d.alive /\ d.topn < MaxTop /\ "run" \in TopOps
  /\ \E t \in RunTimes, idle \in BOOLEAN :
       LET s0 == Emit([d EXCEPT !.topn = @ + 1, !.runArg = t, !.ops = <<[op |-> "run", t |-> t, idle |-> idle]>>],
                      [e |-> "run", t |-> T(t), idle |-> idle])
       IN IF idle /\ d.idleQ # << >>
          THEN Commit([s0 EXCEPT !.pc = "idle"], 0, s0.ops, "")
          ELSE Commit([s0 EXCEPT !.pc = "swap"], 0, s0.ops, "")

RunIdleItem ==
  /\ d.pc = "idle"
  /\ \E r \in ExecClosure([d EXCEPT !.idleQ = Tail(@)], Head(d.idleQ)) :
       Commit([r.s EXCEPT !.pc = "swap"], r.id, r.ops, r.ret)

RunSwap ==
  /\ d.pc = "swap"
  /\ LET t == d.runArg
         s1 == [d EXCEPT !.altMain = d.deferQ, !.deferQ = << >>]
         adv == t > d.now
         due == SelectSeq(d.timers, LAMBDA x : x.at <= t)
         \* ordered by (deadline, creation)
         sorted == SortSeq(due, LAMBDA x, y : x.at < y.at \/ (x.at = y.at /\ x.tid < y.tid))
         s2 == IF adv
               THEN [s1 EXCEPT !.now = t, !.timers = SelectSeq(@, LAMBDA x : x.at > t),
                               !.altMain = @ \o [i \in 1..Len(sorted) |-> sorted[i].c]]
               ELSE s1
     IN Commit([s2 EXCEPT !.pc = "main"], -1, << >>, "")

\* one closure from the swapped-out main queue (or from a pending flush)
ExecMain ==
  /\ d.pc = "main"
  /\ IF d.sync # << >>
     THEN \E r \in ExecClosure([d EXCEPT !.sync = Tail(@)], Head(d.sync)) : Commit(r.s, r.id, r.ops, r.ret)
     ELSE IF d.altMain # << >>
     THEN \E r \in ExecClosure([d EXCEPT !.altMain = Tail(@)], Head(d.altMain)) : Commit(r.s, r.id, r.ops, r.ret)
     ELSE IF d.deferQ # << >>
     THEN Commit([d EXCEPT !.altMain = d.deferQ, !.deferQ = << >>], -1, << >>, "")
     ELSE IF d.lazyQ # << >>
     THEN Commit([d EXCEPT !.altLazy = d.lazyQ, !.lazyQ = << >>, !.pc = "lazy"], -1, << >>, "")
     ELSE \* run returns; the harness then reads is_zombie() of every actor
          LET s1 == Emit([d EXCEPT !.pc = "top"], [e |-> "runend", ret |-> d.idleQ # << >>, now |-> T(d.now)])
              as == SetToSortSeq(DOMAIN d.actors, <)
              s2 == FoldSeq(LAMBDA a, acc : Emit(acc, [e |-> "zombie", aid |-> a, res |-> d.actors[a].bits = "zombie"]), s1, as)
          IN Commit(s2, -1, << >>, "")

ExecLazy ==
  /\ d.pc = "lazy"
  /\ IF d.sync # << >>
     THEN \E r \in ExecClosure([d EXCEPT !.sync = Tail(@)], Head(d.sync)) : Commit(r.s, r.id, r.ops, r.ret)
     ELSE IF d.altLazy # << >>
     THEN \E r \in ExecClosure([d EXCEPT !.altLazy = Tail(@)], Head(d.altLazy)) : Commit(r.s, r.id, r.ops, r.ret)
     ELSE Commit([d EXCEPT !.pc = "main"], -1, << >>, "")

\* Drop for Stakker: drain the defer queue (up to 99 rounds), then the fields
DropStakker ==
  /\ d.pc = "top" /\ d.alive /\ "dropstakker" \in TopOps /\ d.topn >= MaxTop - 2
  /\ LET s0 == Emit([d EXCEPT !.ops = <<[op |-> "drop_stakker"]>>], [e |-> "dropstakker"])
     IN Commit([s0 EXCEPT !.pc = "drain"], 0, s0.ops, "")

DrainRound ==
  /\ d.pc = "drain"
  /\ IF d.deferQ # << >>
     THEN Commit(DropClosures([d EXCEPT !.deferQ = << >>], d.deferQ), -1, << >>, "")
     ELSE \* fields: lazy queue, idle queue, timers (core.rs Core field order); deferring is now void
          LET s1 == [d EXCEPT !.alive = FALSE]
              s2 == DropClosures([s1 EXCEPT !.lazyQ = << >>], d.lazyQ)
              s3 == DropClosures([s2 EXCEPT !.idleQ = << >>], d.idleQ)
              tq == SortSeq(d.timers, LAMBDA x, y : x.at < y.at \/ (x.at = y.at /\ x.tid < y.tid))
              s4 == DropClosures([s3 EXCEPT !.timers = << >>], [i \in 1..Len(tq) |-> tq[i].c])
          IN Commit(Emit([s4 EXCEPT !.pc = "dead"], [e |-> "droppedstakker"]), -1, << >>, "")

Next == TopOp \/ RunBegin \/ RunIdleItem \/ RunSwap \/ ExecMain \/ ExecLazy \/ DropStakker \/ DrainRound

Spec == Init /\ [][Next]_vars

NoViolation == bad = {}

\* every closure handed to the runtime that is pending at top level is in
\* exactly one queue (structural sanity of the model itself)
View == <<d, mon, bad>>
=============================================================================
