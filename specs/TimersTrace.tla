----------------------------- MODULE TimersTrace -----------------------------
(* Trace validation against the DESIGN spec of the timers: the operators of  *)
(* TimersOps (timers/mod.rs at the real constants) are folded over the timer *)
(* events of a recorded trace; every key-operation result, every             *)
(* next_expiry() value and the order in which a run() fires callbacks must   *)
(* be exactly what the design spec computes.  A mismatch is DRIFT (the code  *)
(* no longer follows the verified design), not a property violation: the     *)
(* verdict on the properties is SeqTrace's.                                  *)
EXTENDS TimersOps, Json, IOUtils

Rec == ndJsonDeserialize(IOEnv.TRACE)

VARIABLES l, tm, exp, drift, ok
tvars == <<l, tm, exp, drift, ok>>

TInit == l = 1 /\ tm = TmInit /\ exp = << >> /\ drift = {} /\ ok = TRUE

D(c, m) == IF c /\ ok /\ Cardinality(drift) < 50 THEN {<<m, l>>} ELSE {}

\* registry of keys by the harness's timer ids; `items` maps callback item -> tid
KeyOf(s, tid) == s.keys[tid]
HasKey(s, tid) == tid \in DOMAIN s.keys

AddEv(s, e) ==
  LET r == IF e.kind = "fixed" THEN AddFixed(s, e.t, e.item)
           ELSE IF e.kind = "max" THEN AddMax(s, e.t, e.item) ELSE AddMin(s, e.t, e.item)
  IN [r.s EXCEPT !.keys = IF e.tid \in DOMAIN @ THEN [@ EXCEPT ![e.tid] = r.key] ELSE @ @@ (e.tid :> r.key)]

TNext ==
  /\ l <= Len(Rec)
  /\ l' = l + 1
  /\ LET e == Rec[l] IN
     CASE e.e = "case" -> /\ tm' = TmInit /\ exp' = << >> /\ ok' = TRUE /\ UNCHANGED drift
       [] e.e \in {"panic", "crash"} -> /\ ok' = FALSE /\ UNCHANGED <<tm, exp, drift>>
       [] ~ok -> UNCHANGED <<tm, exp, drift, ok>>
       [] e.e = "tadd" -> /\ tm' = AddEv(tm, e) /\ UNCHANGED <<exp, drift, ok>>
       [] e.e = "tmac" ->
            LET live == HasKey(tm, e.tid) /\ KeyOf(tm, e.tid).ty = e.kind /\ SlotLive(tm, KeyOf(tm, e.tid), e.kind)
                r == IF e.kind = "max" THEN ModMax(tm, KeyOf(tm, e.tid), e.t) ELSE ModMin(tm, KeyOf(tm, e.tid), e.t)
            IN /\ tm' = IF live THEN r.s ELSE AddEv(tm, e)
               /\ drift' = drift \cup D(e.upd # live, "timer_max!/timer_min! took the other branch than the design spec")
               /\ UNCHANGED <<exp, ok>>
       [] e.e = "tupd" ->
            IF e.tid < 0 \/ ~HasKey(tm, e.tid)
            THEN /\ drift' = drift \cup D(e.res, "update through a Default key succeeded") /\ UNCHANGED <<tm, exp, ok>>
            ELSE LET k == KeyOf(tm, e.tid)
                     r == IF k.ty = "max" THEN ModMax(tm, k, e.t) ELSE ModMin(tm, k, e.t)
                 IN /\ tm' = r.s
                    /\ drift' = drift \cup D(r.res # e.res, "timer update result differs from the design spec")
                    /\ UNCHANGED <<exp, ok>>
       [] e.e = "tdel" ->
            IF e.tid < 0 \/ ~HasKey(tm, e.tid)
            THEN /\ drift' = drift \cup D(e.res, "delete through a Default key succeeded") /\ UNCHANGED <<tm, exp, ok>>
            ELSE LET k == KeyOf(tm, e.tid)
                     r == IF k.ty = "fixed" THEN DelFixed(tm, k)
                          ELSE IF k.ty = "fixedmax" THEN DelVar(tm, k, "max") ELSE DelVar(tm, k, k.ty)
                 IN /\ tm' = r.s
                    /\ drift' = drift \cup D(r.res # e.res, "timer delete result differs from the design spec")
                    /\ UNCHANGED <<exp, ok>>
       [] e.e = "tact" ->
            /\ drift' = drift \cup D(e.tid > 0 /\ HasKey(tm, e.tid) /\ VarActive(tm, KeyOf(tm, e.tid)) # e.res,
                                     "timer active result differs from the design spec")
            /\ UNCHANGED <<tm, exp, ok>>
       [] e.e \in {"nexp", "nwait", "nwaitmax"} ->
            LET x == NextExpiry(tm) IN
            /\ drift' = drift \cup D(x.has # e.has \/ (x.has /\ x.x # e.x), "next_expiry() differs from the design spec")
            /\ UNCHANGED <<tm, exp, ok>>
       [] e.e = "run" ->
            LET adv == Lt(tm.cnow, e.t)
                r == IF adv THEN AdvanceLoop([tm EXCEPT !.cnow = e.t], TFloor(e.t), << >>) ELSE [s |-> tm, fired |-> << >>]
            IN /\ tm' = r.s /\ exp' = r.fired
               /\ drift' = drift \cup D(r.s.panicked, "design spec: the advance loop would panic")
               /\ UNCHANGED ok
       [] e.e = "x" ->
            \* a callback: if it is a timer item it must be the next one the design spec fired
            IF exp # << >> /\ exp[1] = e.item THEN /\ exp' = Tail(exp) /\ UNCHANGED <<tm, drift, ok>>
            ELSE /\ drift' = drift \cup D(\E i \in 1..Len(exp) : exp[i] = e.item, "timer callbacks ran in another order than the design spec fires them")
                 /\ exp' = SelectSeq(exp, LAMBDA c : c # e.item)
                 /\ UNCHANGED <<tm, ok>>
       [] e.e = "runend" ->
            /\ drift' = drift \cup D(exp # << >>, "a timer the design spec fired in this run did not run")
            /\ exp' = << >> /\ UNCHANGED <<tm, ok>>
       [] OTHER -> UNCHANGED <<tm, exp, drift, ok>>

TSpec == TInit /\ [][TNext]_tvars

Done == l = Len(Rec) + 1
ReportInv ==
  Done => PrintT(<<"DVERDICT", ToJson([lines |-> Len(Rec), ndrift |-> Cardinality(drift),
                   first |-> IF drift = {} THEN <<"", 0>> ELSE CHOOSE d \in drift : \A o \in drift : d[2] <= o[2]])>>)
Consumed == TLCGet("stats").diameter = Len(Rec) + 1
=============================================================================
