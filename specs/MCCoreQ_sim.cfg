SPECIFICATION Spec
CONSTANTS
  MaxItems = 5
  MaxActors = 0
  MaxOwners = 0
  MaxRets = 0
  MaxTop = 6
  MaxBody = 2
  TopOps <- Ops_Q
  BodyOps <- Ops_QBody
  MethOps <- Ops_QBody
  LogLevels = {}
  RunTimes = {0, 1, 3, 70}
INVARIANT NoViolation ExportInv
CHECK_DEADLOCK FALSE
