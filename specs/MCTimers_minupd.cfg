SPECIFICATION Spec
CONSTANTS
  MaxOps = 4
  MaxTimers = 1
  AddOffsets <- AddOffsMinUpd
  RunOffsets <- RunOffsMinUpd
  Kinds <- MinOnly
  ClampModMin = TRUE
INVARIANT NoViolation WindowInv SlotInv ExportInv
VIEW View
CHECK_DEADLOCK FALSE
