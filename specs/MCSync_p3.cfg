SPECIFICATION Spec
CONSTANTS
  Kind = "piped"
  WakerBits <- NoWakers
  Scripts <- S_p3
  MainScript <- M_pp2
  OrdSet = "SeqCst"
  OrdDrain = "SeqCst"
INVARIANT NoViolation Published NoDeadlock
VIEW View
CHECK_DEADLOCK FALSE
