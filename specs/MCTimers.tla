------------------------------ MODULE MCTimers ------------------------------
EXTENDS Timers, Json

ExportInv ==
  (tm.n = MaxOps \/ tm.panicked) => PrintT(<<"TCASE", ToJson(hist)>>)

AddOffs == {<<0, 0>>, <<0, 1>>, <<0, 16384>>, <<0, 40000>>, <<0, 999990000>>, <<1, 0>>, <<40, 0>>,
            <<32766, 500000000>>, <<32766, 900000000>>, <<32767, 0>>, <<32768, 5>>, <<50000, 0>>, <<70000, 0>>}
AddOffsSmall == {<<0, 0>>, <<0, 16385>>, <<1, 0>>, <<32767, 0>>, <<50000, 0>>, <<70000, 0>>}
AddOffsKeys == {<<0, 0>>, <<1, 0>>, <<1, 5>>}
RunOffsKeys == {<<0, 16384>>, <<2, 0>>}
RunOffs == {<<0, 1>>, <<0, 16384>>, <<0, 999999999>>, <<1, 0>>, <<20000, 0>>, <<33000, 0>>, <<40000, 123>>, <<140000, 0>>}
RunOffsSmall == {<<0, 16384>>, <<1, 0>>, <<33000, 0>>, <<40000, 123>>, <<140000, 0>>}
AllKinds == {"fixed", "max", "min"}
FixedOnly == {"fixed"}
VarOnly == {"max", "min"}
AddOffsKeys1 == {<<1, 0>>}
VarDflt == {"max", "min", "dflt"}
MaxFixedDflt == {"max", "fixed", "dflt"}
FixedMin == {"fixed", "min"}
MaxOnly == {"max"}
MinOnly == {"min"}
AddOffsDeep == {<<0, 0>>, <<1, 0>>, <<32767, 0>>, <<70000, 0>>}
RunOffsDeep == {<<0, 16384>>, <<1, 0>>, <<40000, 123>>}
AddOffsPast == {<<40000, 0>>, <<10, 0>>, <<25, 0>>}
RunOffsPast == {<<100000, 0>>, <<30, 0>>}
\* Min-timer hops whose 75% point falls into the out-of-range sub-second band (61036..65535)
AddOffsR75 == {<<0, 570441728>>, <<0, 464145472>>, <<0, 900000000>>}
RunOffsR75 == {<<0, 536854528>>, <<0, 100000000>>}
AddOffsLong2 == {<<144000, 0>>, <<66996, 0>>}
RunOffsLong2 == {<<64800, 0>>, <<2220, 0>>}
AddOffsSub == {<<0, 999999000>>, <<0, 999997441>>, <<1, 0>>}
RunOffsSub == {<<0, 999998000>>, <<0, 999997440>>, <<0, 999999999>>}
AddOffsLong == {<<20, 0>>, <<40000, 0>>, <<50000, 0>>, <<70000, 0>>, <<140000, 0>>}
RunOffsLong == {<<10, 0>>, <<33000, 0>>, <<45000, 0>>, <<100000, 0>>}
\* Min timer pulled in to an instant between its queued 75% hop and its expiry, then runs inside that window
AddOffsMinUpd == {<<60, 0>>, <<52, 0>>, <<47, 0>>}
RunOffsMinUpd == {<<50, 0>>, <<3, 0>>, <<58, 0>>}
\* fixed timers given the identical instant (well inside the 32767 s range) after earlier ones have fired
AddOffsSame == {<<3000, 0>>}
RunOffsSame == {<<3001, 0>>}
\* a variable timer queued at wrap-time 0 (65536 s = 2^16 s) in slot 0: where a Default key points
AddOffsWrap0 == {<<25536, 0>>, <<65536, 0>>}
RunOffsWrap0 == {<<40000, 0>>}
\* a Max timer and fixed timers on one and the same tick (slot number = sequence number ties in the queue order)
AddOffsTie == {<<5, 0>>}
RunOffsTie == {<<6, 0>>}
FixedMax == {"fixed", "max"}
\* a Min timer whose hop is less than half a second away when it is deleted / pulled in, then slot reuse
AddOffsMinDel == {<<0, 600000000>>, <<0, 200000000>>}
RunOffsMinDel == {<<0, 500000000>>, <<1, 0>>, <<0, 300000000>>}
AddOffsNear == {<<32766, 200000000>>, <<32766, 500000000>>, <<32766, 900000000>>, <<32767, 100000000>>}
RunOffsNear == {<<0, 900000000>>, <<40000, 0>>}
=============================================================================
