SPECIFICATION Spec
CONSTANTS
  MaxItems = 4
  MaxActors = 0
  MaxOwners = 0
  MaxRets = 0
  MaxTop = 4
  MaxBody = 2
  TopOps <- Ops_Q
  BodyOps <- Ops_QBody
  MethOps <- Ops_QBody
  LogLevels = {}
  RunTimes = {0, 1, 3}
INVARIANT NoViolation
VIEW View
CHECK_DEADLOCK FALSE
