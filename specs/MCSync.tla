------------------------------- MODULE MCSync -------------------------------
EXTENDS Sync, Json

Finished == s.th[0].pc = "finished"
ExportInv == Finished => PrintT(<<"SCASE", ToJson([sched |-> hist.sched, lo |-> hist.lo, hi |-> hist.hi,
                                                     kind |-> Kind, scripts |-> Scripts, main |-> MainScript,
                                                     wakers |-> SetToSortSeq(DOMAIN WakerBits, <), chanbit |-> ChanBit,
                                                     hprog |-> [w \in DOMAIN HProg |-> HProg[w]], cecho |-> CEcho, gdf |-> GDF])>>)

\* --- handler programs (run by wake handlers on the main thread, inside poll_wake)
NoHProg == << >>
HP(w, wk, fin) == (w :> [wake |-> wk, final |-> fin])
\* the final call of waker 1 drops waker 2 (which no thread touches): its own final call must still come
HP_findrop == HP(1, << >>, <<<<"drop", 2>>>>)
\* waker 2 is woken by the main thread only; its handler closes it
HP_selfdrop == HP(2, <<<<"drop", 2>>>>, << >>)
\* the handler of waker 1 wakes waker 2 from inside poll_wake
HP_hwake == HP(1, <<<<"wake", 2>>>>, << >>)
\* the handler of waker 1 (woken once, never dropped) calls poll_wake re-entrantly
HP_nested == HP(1, <<<<"poll">>>>, << >>)
S_h1 == (1 :> <<<<"wake", 1>>, <<"drop", 1>>>>) @@ (2 :> <<<<"wake", 65>>>>)
S_h2 == (1 :> <<<<"wake", 1>>>>) @@ (2 :> <<<<"wake", 65>>>>)
S_h3 == (1 :> <<<<"wake", 1>>>>) @@ (2 :> <<<<"wake", 2>>>>) @@ (3 :> <<<<"wake", 65>>>>)
M_h2 == <<<<"wake", 2>>, <<"poll">>, <<"poll">>>>

\* --- waker configurations
WB_same == (1 :> 1) @@ (2 :> 2)                \* two wakers in the same leaf word
WB_words == (1 :> 1) @@ (65 :> 65)             \* different words of one bitmap
WB_bms == (1 :> 1) @@ (4097 :> 4097)           \* different bitmaps
WB_three == (1 :> 1) @@ (2 :> 2) @@ (65 :> 65)

S_w2 == (1 :> <<<<"wake", 1>>, <<"wake", 1>>>>) @@ (2 :> <<<<"wake", 2>>>>)
S_w2b == (1 :> <<<<"wake", 1>>, <<"wake", 1>>>>) @@ (2 :> <<<<"wake", 65>>>>)
S_w2c == (1 :> <<<<"wake", 1>>>>) @@ (2 :> <<<<"wake", 4097>>, <<"wake", 4097>>>>)
S_wd == (1 :> <<<<"wake", 1>>, <<"drop", 1>>>>) @@ (2 :> <<<<"wake", 2>>>>)
S_wd2 == (1 :> <<<<"wake", 1>>, <<"drop", 1>>>>) @@ (2 :> <<<<"drop", 2>>>>)
S_w3 == (1 :> <<<<"wake", 1>>>>) @@ (2 :> <<<<"wake", 2>>>>) @@ (3 :> <<<<"wake", 65>>, <<"drop", 65>>>>)
M_p1 == <<<<"poll">>>>
M_p2 == <<<<"poll">>, <<"poll">>>>
M_p3 == <<<<"poll">>, <<"poll">>, <<"poll">>>>
S_wd3 == (1 :> <<<<"wake", 1>>, <<"drop", 1>>>>) @@ (2 :> <<<<"wake", 4097>>, <<"drop", 4097>>>>)
M_recycle == <<<<"poll">>, <<"create">>, <<"poll">>, <<"wake", 1000>>, <<"drop", 1000>>>>

\* --- channel configurations
S_c1 == (1 :> <<<<"send", 1>>, <<"send", 2>>>>)
S_c2 == (1 :> <<<<"send", 1>>, <<"send", 2>>>>) @@ (2 :> <<<<"send", 10>>>>)
S_c3 == (1 :> <<<<"send", 1>>>>) @@ (2 :> <<<<"send", 10>>>>) @@ (3 :> <<<<"send", 20>>, <<"isclosed">>>>)
M_c1 == <<<<"poll">>, <<"poll">>>>
M_cg == <<<<"poll">>, <<"dropguard">>, <<"poll">>>>
M_cg2 == <<<<"dropguard">>>>

\* --- piped thread configurations (thread 1 is the worker)
S_p1 == (1 :> <<<<"recv">>, <<"lsend", 5>>, <<"recv">>>>)
S_p2 == (1 :> <<<<"lsend", 5>>, <<"lsend", 6>>, <<"recv">>, <<"cancel">>>>)
S_p3 == (1 :> <<<<"recv">>, <<"panic", "scripted: boom">>>>)
S_p4 == (1 :> <<<<"lsend", 7>>, <<"recv">>, <<"recv">>, <<"lsend", 8>>>>)
S_p5 == (1 :> <<<<"recv">>, <<"recv">>, <<"lsend", 9>>, <<"panic", "scripted: late">>>>)
M_pp1 == <<<<"psend", 1>>, <<"poll">>, <<"psend", 2>>, <<"poll">>, <<"pdrop">>>>
M_pp2 == <<<<"poll">>, <<"pdrop">>, <<"poll">>>>
M_pp3 == <<<<"psend", 1>>, <<"psend", 2>>, <<"poll">>, <<"pdrop">>>>
\* the worker goes on sending after the PipedThread was dropped; the event loop looks without waiting
S_p6 == (1 :> <<<<"recv">>, <<"lsend", 5>>, <<"lsend", 6>>>>)
M_pp4 == <<<<"pdrop">>, <<"trypoll">>, <<"trypoll">>>>
NoWakers == << >>
WB_far == (1 :> 4097)
WB_two == (10 :> 10) @@ (262154 :> 262154)   \* two bitmaps announced through the same poll-waker slot
S_w2d == (1 :> <<<<"wake", 10>>>>) @@ (2 :> <<<<"wake", 262154>>, <<"wake", 262154>>>>)
\* a slot of the first bitmap is recycled while a Waker of a second-generation bitmap (same poll-waker slot) is alive
S_wr2 == (1 :> <<<<"drop", 10>>>>) @@ (2 :> <<<<"wake", 262154>>>>)
M_recycle2 == <<<<"poll">>, <<"create">>, <<"wake", 1000>>, <<"poll">>, <<"drop", 1000>>>>
WB_ext == (8 :> 1) @@ (1 :> 2)               \* a plain Waker (slab index 1) next to the channel's Waker (index 2)
S_ext == (1 :> <<<<"send", 1>>, <<"send", 2>>>>) @@ (2 :> <<<<"wake", 8>>, <<"wake", 8>>>>)
WB_ctl == (7 :> 1) @@ (1 :> 2)               \* control Waker (slab index 1) + the channel's Waker (index 2)
S_ctl == (1 :> <<<<"send", 1>>, <<"send", 2>>>>) @@ (2 :> <<<<"wakectl">>>>)     \* the channel's / piped thread's Waker sits in the second bitmap
=============================================================================
