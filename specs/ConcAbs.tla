------------------------------- MODULE ConcAbs -------------------------------
(***************************************************************************)
(* Abstract specification (monitor form) of the inter-thread part of       *)
(* stakker: Waker, Channel, PipedThread (properties C11-C14).              *)
(* CApply(st, e, n) consumes the n-th observable event of an execution     *)
(* that was serialised by the deterministic scheduler and yields the next  *)
(* abstract state and the set of <<property, reason>> pairs violated.      *)
(* Events: wake_begin/wake_end, wdrop_begin/wdrop_end, wcreate, handler,   *)
(* pollwaker, pollcheck, poll_begin/poll_end, quiesce (all threads have    *)
(* finished and the main thread has polled until it was no longer          *)
(* notified), channel send/fwd/guard events, PipedThread events.           *)
(***************************************************************************)
EXTENDS Integers, Sequences, FiniteSets, FiniteSetsExt, SequencesExt, TLC

CB(c, p, m) == IF c THEN {<<p, m>>} ELSE {}
CR(st, bad) == [st |-> st, bad |-> bad]

CInit0(props) ==
  [ props |-> props,
    wakes |-> << >>,      \* records [w, t, began, ended, served]
    wdrop |-> << >>,      \* w -> [began, ended]   (function over dropped wakers)
    wdel  |-> {},         \* wakers whose deleted=true call has been seen
    known |-> {},         \* wakers created
    \* channel
    sends |-> << >>,      \* [t, v, began, ended, res]
    fwds  |-> << >>,      \* values forwarded, in order
    gdropB|-> 0, gdropE |-> 0,
    iscB  |-> << >>,      \* thread -> start of its is_closed() call in progress
    \* piped thread
    psent |-> << >>,      \* values given to PipedThread::send, in order (at psend_begin)
    pdone |-> 0,          \* how many of psent were completed (psend_end)
    precvd|-> 0,          \* how many of them the worker has received
    lsent |-> << >>,      \* values the worker passed to PipedLink::send (at lsend_end)
    pfwd  |-> 0,          \* how many of them reached fwd_recv
    pdropB|-> 0, pdropE |-> 0,
    recvB |-> 0,          \* start of the recv in progress (0: none)
    lsendB|-> 0,
    wexit |-> "",         \* "" | "return" | "panic:<msg>"
    pterms|-> 0,
    piped |-> FALSE,
    inwake |-> << >>,     \* thread -> has its wake() in progress performed a release write yet?
    stuck |-> FALSE ]

Upd(seq, P(_), F(_)) == [i \in 1..Len(seq) |-> IF P(seq[i]) THEN F(seq[i]) ELSE seq[i]]

CApply(st, e, n) ==
  CASE e.e = "case" -> CR(CInit0({e.props[i] : i \in 1..Len(e.props)}), {})
    [] e.e = "setup" -> CR([st EXCEPT !.known = {e.wakers[i] : i \in 1..Len(e.wakers)}], {})
    [] e.e = "setup_piped" -> CR([st EXCEPT !.piped = TRUE], {})
    [] e.e = "wcreate" -> CR([st EXCEPT !.known = @ \cup {e.w}], {})
    \* ----------------------------------------------------------- Waker
    [] e.e = "wake_begin" ->
         CR([st EXCEPT !.wakes = Append(@, [w |-> e.w, t |-> e.t, began |-> n, ended |-> FALSE, served |-> FALSE]),
                       !.inwake = IF e.t \in DOMAIN @ THEN [@ EXCEPT ![e.t] = FALSE] ELSE @ @@ (e.t :> FALSE)], {})
    [] e.e = "wake_end" ->
         CR([st EXCEPT !.wakes = Upd(@, LAMBDA x : x.w = e.w /\ x.t = e.t /\ ~x.ended, LAMBDA x : [x EXCEPT !.ended = TRUE]),
                       !.inwake = [k \in DOMAIN @ \ {e.t} |-> @[k]]],
            \* C11, second sentence: the handler can only see what the waking thread wrote before wake() if
            \* wake() itself performs a release write on the bitmap (the collector's acquiring swap reads it)
            CB(e.t \in DOMAIN st.inwake /\ ~st.inwake[e.t], "C11",
               "wake() returned without any release write on the wake bitmap: writes made before it are not published to the handler"))
    [] e.e = "wdrop_begin" ->
         CR([st EXCEPT !.wdrop = @ @@ (e.w :> [began |-> n, ended |-> FALSE])], {})
    [] e.e = "wdrop_end" ->
         CR([st EXCEPT !.wdrop[e.w].ended = TRUE], {})
    [] e.e = "handler" ->
         LET s1 == [st EXCEPT !.wakes = Upd(@, LAMBDA x : x.w = e.w, LAMBDA x : [x EXCEPT !.served = TRUE]),
                              !.wdel = IF e.deleted THEN @ \cup {e.w} ELSE @]
         IN CR(s1,
               CB(e.w \in st.wdel, "C12", "Waker handler invoked again after its deleted=true call")
               \cup CB(e.deleted /\ e.w \notin DOMAIN st.wdrop, "C12", "deleted=true delivered to a Waker that was not dropped")
               \cup CB(e.w \notin st.known, "C12", "handler of an unknown Waker invoked"))
    [] e.e = "pollcheck" ->
         \* the event loop found no wake-up pending (its blocking wait timed out: nobody else can move):
         \* nothing that was accepted may still be sitting in a queue
         IF e.notified THEN CR(st, {}) ELSE
         LET fw == {st.fwds[i] : i \in 1..Len(st.fwds)}
             stranded == {i \in 1..Len(st.sends) : st.sends[i].ended /\ st.sends[i].res /\ st.sends[i].v \notin fw}
         IN CR(st,
               CB(stranded # {} /\ st.gdropB = 0, "C13", "accepted message left queued with no wake-up pending")
               \cup CB(st.piped /\ st.pterms = 0 /\ st.pfwd < Len(st.lsent), "C14",
                       "worker message left queued with no wake-up pending while the worker is still running"))
    [] e.e = "quiesce" ->
         LET lost == {i \in 1..Len(st.wakes) : st.wakes[i].ended /\ ~st.wakes[i].served}
             undel == {w \in DOMAIN st.wdrop : st.wdrop[w].ended /\ w \notin st.wdel}
             accepted == {i \in 1..Len(st.sends) : st.sends[i].ended /\ st.sends[i].res}
             fw == {st.fwds[i] : i \in 1..Len(st.fwds)}
             stranded == {i \in accepted : st.sends[i].v \notin fw}
         IN CR(st,
               CB(lost # {}, "C11", "wake() returned but its handler was never run by the polls that followed (lost wake-up)")
               \cup CB(undel # {}, "C12", "dropped Waker never reported with deleted=true")
               \cup CB(stranded # {} /\ st.gdropB = 0, "C13", "accepted message left queued with no wake-up pending")
               \cup CB(st.piped /\ st.wexit # "" /\ st.pterms # 1, "C14", "fwd_term not called exactly once after the worker ended")
               \cup CB(st.piped /\ st.pfwd # Len(st.lsent), "C14", "worker message not forwarded to fwd_recv"))
    \* --------------------------------------------------------- Channel
    [] e.e = "send_begin" ->
         CR([st EXCEPT !.sends = Append(@, [t |-> e.t, v |-> e.v, began |-> n, ended |-> FALSE, res |-> FALSE])], {})
    [] e.e = "send_end" ->
         LET i == CHOOSE j \in 1..Len(st.sends) : st.sends[j].v = e.v /\ st.sends[j].t = e.t /\ ~st.sends[j].ended
             b == st.sends[i].began
         IN CR([st EXCEPT !.sends[i].ended = TRUE, !.sends[i].res = e.res],
               \* (send decides under the buffer lock, and the guard closes the channel under the same lock: a send that
               \*  is told `true` has left that lock before the guard's drop could complete)
               CB(e.res /\ st.gdropE # 0, "C13", "send returned true after the guard was dropped")
               \cup CB(~e.res /\ st.gdropB = 0, "C13", "send returned false although the guard was not dropped"))
    [] e.e = "isclosed_begin" ->
         CR([st EXCEPT !.iscB = IF e.t \in DOMAIN @ THEN [@ EXCEPT ![e.t] = n] ELSE @ @@ (e.t :> n)], {})
    [] e.e = "isclosed" ->
         CR(st, CB(e.res /\ st.gdropB = 0, "C13", "is_closed true although the guard was not dropped")
                \cup CB(~e.res /\ st.gdropE # 0 /\ e.t \in DOMAIN st.iscB /\ st.iscB[e.t] > st.gdropE, "C13",
                        "is_closed false although the guard had been dropped before the call began"))
    [] e.e = "isclosed_after" ->
         CR(st, CB(~e.res, "C13", "is_closed false after the guard was dropped"))
    [] e.e = "guard_drop_begin" -> CR([st EXCEPT !.gdropB = n], {})
    [] e.e = "guard_drop_end" -> CR([st EXCEPT !.gdropE = n], {})
    [] e.e = "fwd" ->
         LET sent == {i \in 1..Len(st.sends) : st.sends[i].v = e.v}
             i == CHOOSE j \in sent : TRUE
             \* an earlier message of the same sender that was accepted but not yet forwarded
             overtaken == sent # {} /\ \E j \in 1..Len(st.sends) :
                             /\ st.sends[j].t = st.sends[i].t /\ j < i /\ st.sends[j].ended /\ st.sends[j].res
                             /\ st.sends[j].v \notin {st.fwds[k] : k \in 1..Len(st.fwds)}
         IN CR([st EXCEPT !.fwds = Append(@, e.v)],
               CB(sent = {}, "C13", "forwarded a message that was never sent")
               \cup CB(e.v \in {st.fwds[k] : k \in 1..Len(st.fwds)}, "C13", "message forwarded twice")
               \cup CB(overtaken, "C13", "messages of one sender forwarded out of order")
               \cup CB(st.gdropE # 0, "C13", "message forwarded after the guard was dropped"))
    \* ----------------------------------------------------- PipedThread
    [] e.e = "psend_begin" -> CR([st EXCEPT !.psent = Append(@, e.v)], {})
    [] e.e = "psend_end" -> CR([st EXCEPT !.pdone = @ + 1], {})
    [] e.e = "pdrop_begin" -> CR([st EXCEPT !.pdropB = n], {})
    [] e.e = "pdrop_end" -> CR([st EXCEPT !.pdropE = n], {})
    [] e.e = "recv_begin" -> CR([st EXCEPT !.recvB = n], {})
    [] e.e = "recv_end" ->
         IF e.has
         THEN CR([st EXCEPT !.precvd = @ + 1, !.recvB = 0],
                 CB(st.precvd + 1 > Len(st.psent), "C14", "recv returned a message that was never sent")
                 \cup CB(st.precvd + 1 <= Len(st.psent) /\ st.psent[st.precvd + 1] # e.v, "C14", "recv returned messages out of order or twice")
                 \cup CB(st.pdropE # 0 /\ st.recvB > st.pdropE, "C14", "recv returned a message after the PipedThread was dropped"))
         ELSE CR([st EXCEPT !.recvB = 0],
                 CB(st.pdropB = 0, "C14", "recv returned None although the PipedThread was not dropped"))
    [] e.e = "lsend_begin" -> CR([st EXCEPT !.lsendB = n], {})
    [] e.e = "lsend_end" ->
         CR([st EXCEPT !.lsent = Append(@, e.v)],
            CB(e.res /\ st.pdropE # 0 /\ st.lsendB > st.pdropE, "C14", "PipedLink::send reported success after the PipedThread was dropped")
            \cup CB(~e.res /\ st.pdropB = 0, "C14", "PipedLink::send reported cancellation although the PipedThread was not dropped"))
    [] e.e = "cancelq" ->
         CR(st, CB(e.res /\ st.pdropB = 0, "C14", "cancel() true although the PipedThread was not dropped"))
    [] e.e = "wreturn" -> CR([st EXCEPT !.wexit = "return"], {})
    [] e.e = "wpanic" -> CR([st EXCEPT !.wexit = "panic:" \o e.msg], {})
    [] e.e = "precv" ->
         CR([st EXCEPT !.pfwd = @ + 1],
            CB(st.pfwd + 1 > Len(st.lsent) /\ st.lsendB = 0, "C14", "fwd_recv got a message the worker never sent")
            \cup CB(st.pfwd + 1 <= Len(st.lsent) /\ st.lsent[st.pfwd + 1] # e.v, "C14", "worker messages forwarded out of order or twice")
            \cup CB(st.pterms > 0, "C14", "worker message forwarded after the termination notice"))
    [] e.e = "pterm" ->
         LET want == IF st.wexit = "return" THEN "" ELSE SubSeq(st.wexit, 7, Len(st.wexit)) IN
         CR([st EXCEPT !.pterms = @ + 1],
            CB(st.pterms > 0, "C14", "fwd_term called more than once")
            \cup CB(st.wexit = "", "C14", "fwd_term called before the worker ended")
            \cup CB(st.wexit # "" /\ e.panic # (st.wexit # "return"), "C14", "fwd_term None/Some does not match how the worker ended")
            \cup CB(st.wexit # "" /\ e.panic /\ e.msg # want, "C14", "panic text not passed through intact")
            \cup CB(st.pfwd # Len(st.lsent), "C14", "fwd_term called before all worker messages were forwarded"))
    [] e.e = "stuck" ->
         CR([st EXCEPT !.stuck = TRUE], {<<p, "execution cannot make progress: " \o e.why \o " " \o e.wants>> : p \in st.props})
    [] e.e = "panic" ->
         CR([st EXCEPT !.stuck = TRUE], {<<p, "panic: " \o e.msg>> : p \in st.props})
    [] e.e = "crash" ->
         CR([st EXCEPT !.stuck = TRUE], {<<p, "process aborted: " \o e.msg>> : p \in st.props})
    [] OTHER -> CR(st, {})

\* low-level record (atomic operation) of the deterministic scheduler's trace
CApplyLo(st, r) ==
  IF r.k = "at" /\ r.t \in DOMAIN st.inwake
     /\ r.op \in {"fetch_or", "swap", "store", "fetch_and", "fetch_add", "fetch_xor", "compare_exchange", "fetch_sub"}
     /\ r.ord \in {"SeqCst", "AcqRel", "Release"}
  THEN [st EXCEPT !.inwake[r.t] = TRUE]
  ELSE st
=============================================================================
