SPECIFICATION Spec
CONSTANTS
  MaxItems = 5
  MaxActors = 1
  MaxOwners = 1
  MaxRets = 0
  MaxTop = 5
  MaxBody = 2
  TopOps <- Ops_DTop
  BodyOps <- Ops_DBody
  MethOps <- Ops_DMeth
  LogLevels = {}
  RunTimes = {1}
INVARIANT NoViolation ExportInv
VIEW View
CHECK_DEADLOCK FALSE
