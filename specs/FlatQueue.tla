----------------------------- MODULE FlatQueue -----------------------------
(***************************************************************************)
(* Design specification of the flat (unsafe) FnOnceQueue of                *)
(* src/queue/flat.rs: a fixed-size byte buffer holding, per closure, a     *)
(* vtable pointer followed by the closure's data aligned on its absolute   *)
(* address; growth by allocating a bigger buffer whose first item owns and *)
(* runs the old buffer ("chaining"); the drain walk that recomputes item   *)
(* positions from the sizes/alignments stored in the vtables.              *)
(* The abstract counterpart is the boxed queue of src/queue/boxed.rs: a    *)
(* sequence (variable `abs`).  Checked: the flat queue refines it (same    *)
(* run order, same dropped set: RefinesSeq) and its memory discipline      *)
(* (InBounds, Disjoint, DataAligned, DrainWalkEqualsPushWalk).             *)
(***************************************************************************)
EXTENDS FlatQueueOps

CONSTANTS
  Shapes,       \* set of <<size, align>> of the closure types pushed
  Bases,        \* possible buffer base addresses modulo 128 (allocator's choice)
  MaxPush,      \* pushes per behaviour
  Fills         \* numbers of small (24 byte, align 8) closures a "fill" step pushes

VARIABLES q, abs, ran, n, hist

vars == <<q, abs, ran, n, hist>>

Init ==
  /\ q = NoBuf
  /\ abs = << >>
  /\ ran = << >>
  /\ n = 0
  /\ hist = << >>

DoPush(shape, nb) ==
  /\ n < MaxPush
  /\ q' = Push(q, n + 1, shape[1], shape[2], nb)
  /\ abs' = Append(abs, n + 1)
  /\ n' = n + 1
  /\ hist' = Append(hist, <<"push", shape, n + 1>>)
  /\ UNCHANGED ran

\* k small closures in a row (brings the fill level next to a boundary)
DoFill(k, nb) ==
  /\ n < MaxPush
  /\ LET ids == [i \in 1..k |-> 1000 * (n + 1) + i]
         b2 == FoldLeft(LAMBDA b, id : Push(b, id, SmallShape[1], SmallShape[2], nb), q, ids)
     IN /\ q' = b2
        /\ abs' = abs \o ids
  /\ n' = n + 1
  /\ hist' = Append(hist, <<"fill", k, n + 1>>)
  /\ UNCHANGED ran

DoExec ==
  /\ q.len # 0
  /\ ran' = ran \o RunOrder(q)
  /\ q' = [q EXCEPT !.len = 0, !.items = << >>]
  /\ abs' = << >>
  /\ hist' = Append(hist, <<"exec">>)
  /\ UNCHANGED n

Next ==
  \/ \E sh \in Shapes, nb \in Bases : DoPush(sh, nb)
  \/ \E k \in Fills, nb \in Bases : DoFill(k, nb)
  \/ DoExec

Spec == Init /\ [][Next]_vars

ViewQ == <<q, abs, ran, n>>
MemoryOk == BufOk(q)

\* refinement of the boxed queue: pending items in submission order; executed
\* items exactly the submitted ones in order
RefinesSeq == RunOrder(q) = abs

\* the compile-time requirement is an upper bound on the space a push uses
ReqIsUpperBound ==
  \A sh \in Shapes, base \in {8 * k : k \in 0..15} :
     LET b == [base |-> base, cap |-> 100000, len |-> 0, items |-> << >>]
     IN Place(b, 1, sh[1], sh[2], << >>).len <= Req(sh[1], sh[2])
=============================================================================
