SPECIFICATION Spec
CONSTANTS
  MaxItems = 4
  MaxActors = 1
  MaxOwners = 3
  MaxRets = 0
  MaxTop = 6
  MaxBody = 1
  TopOps <- Ops_OTop
  BodyOps <- Ops_OMeth
  MethOps <- Ops_OMeth
  LogLevels = {}
  RunTimes = {1}
INVARIANT NoViolation ExportInv
VIEW View
CHECK_DEADLOCK FALSE
