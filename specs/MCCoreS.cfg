SPECIFICATION Spec
CONSTANTS
  MaxItems = 5
  MaxActors = 3
  MaxOwners = 1
  MaxRets = 0
  MaxTop = 4
  MaxBody = 2
  TopOps <- Ops_STop
  BodyOps <- Ops_SBody
  MethOps <- Ops_SMeth
  LogLevels = {}
  RunTimes = {1}
INVARIANT NoViolation ExportInvS
VIEW View
CHECK_DEADLOCK FALSE
