SPECIFICATION Spec
CONSTANTS
  MaxOps = 4
  MaxTimers = 2
  AddOffsets <- AddOffsSmall
  RunOffsets <- RunOffsSmall
  Kinds <- AllKinds
  ClampModMin = TRUE
INVARIANT NoViolation WindowInv SlotInv
VIEW View
CHECK_DEADLOCK FALSE
