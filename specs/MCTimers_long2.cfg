SPECIFICATION Spec
CONSTANTS
  MaxOps = 4
  MaxTimers = 2
  AddOffsets <- AddOffsLong2
  RunOffsets <- RunOffsLong2
  Kinds <- FixedMin
  ClampModMin = TRUE
INVARIANT NoViolation WindowInv SlotInv ExportInv
VIEW View
CHECK_DEADLOCK FALSE
