------------------------------ MODULE FlatTrace ------------------------------
(* Trace validation for the queues: the flat queue's recorded storage figures *)
(* must be those FlatQueue.tla computes (conformance; a mismatch is reported  *)
(* as DRIFT), and the observable behaviour of the flat and the boxed queue    *)
(* driven by the same operations must be identical (property C17).            *)
EXTENDS FlatQueueOps, Json, IOUtils

Rec == ndJsonDeserialize(IOEnv.TRACE)

VARIABLES l, b, which, obs, exp, viol, pend
tvars == <<l, b, which, obs, exp, viol, pend>>

TInit == /\ l = 1 /\ b = NoBuf /\ which = "" /\ obs = [flat |-> << >>, boxed |-> << >>]
         /\ exp = << >> /\ viol = {} /\ pend = << >>

V(c, p, m) == IF c /\ p \notin {v[1] : v \in viol} THEN {<<p, m, l>>} ELSE {}
Obs(x) == [obs EXCEPT ![which] = Append(@, x)]

TNext ==
  /\ l <= Len(Rec)
  /\ l' = l + 1
  /\ LET e == Rec[l] IN
     CASE e.e = "qcase" ->
            /\ b' = NoBuf /\ which' = "" /\ obs' = [flat |-> << >>, boxed |-> << >>] /\ exp' = << >> /\ pend' = << >>
            /\ UNCHANGED viol
       [] e.e = "qimpl" ->
            /\ which' = e.which /\ b' = NoBuf /\ exp' = << >> /\ pend' = << >>
            /\ UNCHANGED <<obs, viol>>
       [] e.e = "qpush" ->
            /\ pend' = <<e.id, e.size, e.align>>
            /\ UNCHANGED <<b, which, obs, exp, viol>>
       [] e.e = "qpushbox" ->
            /\ pend' = <<e.id, 16, 8>>
            /\ UNCHANGED <<b, which, obs, exp, viol>>
       [] e.e = "qst" ->
            IF pend # << >>
            THEN LET nb == Push(b, pend[1], pend[2], pend[3], e.base)
                     moved == nb.cap # b.cap \/ b.cap = 0
                     \* follow the decisions the code actually took (did it allocate a new buffer?)
                     grew == e.cap # b.cap
                     fresh == [base |-> e.base, cap |-> e.cap, len |-> 0, items |-> << >>]
                     ob0 == IF grew THEN (IF b.len # 0 THEN Place(fresh, 0, ChainSize, VP, <<b>>) ELSE fresh) ELSE b
                     ob == Place(ob0, pend[1], pend[2], pend[3], << >>)
                     same == nb.len = e.len /\ nb.cap = e.cap /\ (moved \/ e.base = b.base)
                 IN /\ b' = (IF same THEN nb ELSE ob) /\ pend' = << >>
                    /\ viol' = viol \cup V(~same, "DRIFT",
                                           "flat queue storage (len/cap/base) differs from FlatQueue.tla after a push")
                                    \cup V(e.len > e.cap \/ (~same /\ ob.len > ob.cap), "C16",
                                           "flat queue wrote a closure beyond the end of its buffer")
                                    \cup V(same /\ ~BufOk(nb), "DRIFT", "model buffer invariant broken")
                    /\ UNCHANGED <<which, obs, exp>>
            ELSE \* after execute
                 /\ viol' = viol \cup V(e.len # 0, "C17", "flat queue not empty after execute")
                 /\ b' = [b EXCEPT !.len = 0, !.items = << >>]
                 /\ UNCHANGED <<which, obs, exp, pend>>
       [] e.e = "qexec" ->
            /\ exp' = IF which = "flat" THEN RunOrder(b) ELSE << >>
            /\ obs' = Obs(<<"exec">>)
            /\ UNCHANGED <<b, which, viol, pend>>
       [] e.e = "qrun" ->
            /\ obs' = Obs(<<"run", e.id, e.ok>>)
            /\ exp' = IF exp # << >> THEN Tail(exp) ELSE exp
            /\ viol' = viol \cup V(~e.ok, "C17", "captured data corrupted or misaligned")
                            \cup V(which = "flat" /\ (exp = << >> \/ exp[1] # e.id), "C17",
                                   "flat queue ran closures in an order other than submission order")
            /\ UNCHANGED <<b, which, pend>>
       [] e.e = "qrun2" -> /\ obs' = Obs(<<"run2", e.id>>) /\ UNCHANGED <<b, which, exp, viol, pend>>
       [] e.e = "qdrop" -> /\ obs' = Obs(<<"drop", e.id>>) /\ UNCHANGED <<b, which, exp, viol, pend>>
       [] e.e = "qisempty" -> /\ obs' = Obs(<<"isempty", e.res>>) /\ UNCHANGED <<b, which, exp, viol, pend>>
       [] e.e = "qdropq" -> /\ obs' = Obs(<<"dropq">>) /\ UNCHANGED <<b, which, exp, viol, pend>>
       [] e.e = "qdroppedq" -> /\ obs' = Obs(<<"droppedq">>) /\ UNCHANGED <<b, which, exp, viol, pend>>
       [] e.e = "qend" -> /\ obs' = Obs(<<"end">>) /\ UNCHANGED <<b, which, exp, viol, pend>>
       [] e.e = "qcrash" ->
            /\ viol' = viol \cup {<<p, "process aborted while driving the " \o e.which \o " queue: " \o e.msg, l>> : p \in {"C17", "C16"} \ {v[1] : v \in viol}}
            /\ UNCHANGED <<b, which, obs, exp, pend>>
       [] e.e = "qcaseend" ->
            /\ viol' = viol \cup V(obs.flat # obs.boxed, "C17", "flat and boxed queue differ in observable behaviour (run order / data / drops / is_empty)")
            /\ UNCHANGED <<b, which, obs, exp, pend>>
       [] OTHER -> UNCHANGED <<b, which, obs, exp, viol, pend>>

TSpec == TInit /\ [][TNext]_tvars

First(p) == LET s == {v \in viol : v[1] = p}
                m == Min({v[3] : v \in s})
            IN CHOOSE v \in s : v[3] = m
Done == l = Len(Rec) + 1
ReportInv ==
  Done => PrintT(<<"VERDICT", ToJson([lines |-> Len(Rec), ndrift |-> Cardinality({v \in viol : v[1] = "DRIFT"}),
        violations |-> {[prop |-> p, why |-> First(p)[2], line |-> First(p)[3]] : p \in {v[1] : v \in viol}}])>>)
Consumed == TLCGet("stats").diameter = Len(Rec) + 1
=============================================================================
