SPECIFICATION Spec
CONSTANTS
  MaxOps = 5
  MaxTimers = 3
  AddOffsets <- AddOffsTie
  RunOffsets <- RunOffsTie
  Kinds <- FixedMax
  ClampModMin = TRUE
INVARIANT NoViolation WindowInv SlotInv ExportInv
VIEW View
CHECK_DEADLOCK FALSE
