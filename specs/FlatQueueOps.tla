--------------------------- MODULE FlatQueueOps ---------------------------
(* The arithmetic of src/queue/flat.rs (HVec::push, expand_storage, Drain) as *)
(* pure operators over a buffer record; shared by the design spec             *)
(* FlatQueue.tla and the trace specification FlatTrace.tla.                   *)
EXTENDS Integers, Sequences, FiniteSets, FiniteSetsExt, SequencesExt, TLC

VP == 8                      \* size and alignment of the vtable pointer
ChainSize == 24              \* closure capturing the old FnOnceQueue (ptr, len, cap)
ChainExtra == 32             \* size_of::<(*mut (), FnOnceQueue<()>)>()
InitialAlloc == 1024
SmallShape == <<24, 8>>

AlignUp(x, a) == ((x + a - 1) \div a) * a
RECURSIVE NextPow2From(_, _)
NextPow2From(p, x) == IF p >= x THEN p ELSE NextPow2From(2 * p, x)
NextPow2(x) == NextPow2From(1, x)
MaxOf(a, b) == IF a > b THEN a ELSE b

\* HVec::push's compile-time worst-case space requirement
Req(size, align) == AlignUp(AlignUp(VP, align) + size, VP)

\* a buffer: [base, cap, len, items], items: sequence of [id, size, align, off (data offset), vp (vp offset), chain]
NoBuf == [base |-> 0, cap |-> 0, len |-> 0, items |-> << >>]

\* HVec::push once there is room: positions computed on absolute addresses
Place(b, id, size, align, chain) ==
  LET p0 == b.base + b.len
      d == AlignUp(p0 + VP, align)
      e == AlignUp(d + size, VP)
  IN [b EXCEPT !.items = Append(@, [id |-> id, size |-> size, align |-> align, vp |-> b.len, off |-> d - b.base, chain |-> chain]),
               !.len = e - b.base]

\* expand_storage(req): returns the new buffer (old one chained as its first item)
Expand(b, req, newbase) ==
  LET pushOld == b.len # 0
      req2 == IF pushOld THEN req + ChainExtra ELSE req
      size == NextPow2(MaxOf(MaxOf(b.cap, req2) + 1, InitialAlloc))
      nb == [base |-> newbase, cap |-> size, len |-> 0, items |-> << >>]
  IN IF pushOld THEN Place(nb, 0, ChainSize, VP, <<b>>) ELSE nb

Push(b, id, size, align, newbase) ==
  LET req == Req(size, align) IN
  IF req > b.cap - b.len
  THEN Place(Expand(b, req, newbase), id, size, align, << >>)
  ELSE Place(b, id, size, align, << >>)

\* the order in which execute() runs the items: chained buffers first
RECURSIVE RunOrder(_)
RunOrder(b) ==
  LET Step(acc, it) == IF it.chain # << >> THEN acc \o RunOrder(it.chain[1]) ELSE Append(acc, it.id)
  IN FoldLeft(Step, << >>, b.items)

\* Drain: positions recomputed from (size, align) read back from the vtable
RECURSIVE DrainWalk(_, _, _)
DrainWalk(b, pos, i) ==
  IF i > Len(b.items) THEN << >>
  ELSE LET it == b.items[i]
           d == AlignUp(b.base + pos + VP, it.align)
           nxt == AlignUp(d + it.size, VP) - b.base
       IN <<[vp |-> pos, off |-> d - b.base]>> \o DrainWalk(b, nxt, i + 1)

(* ----------------------------- invariants ----------------------------- *)
RECURSIVE BufOk(_)
BufOk(b) ==
  /\ b.len <= b.cap
  /\ b.base % VP = 0
  /\ \A i \in 1..Len(b.items) :
        LET it == b.items[i] IN
        /\ it.vp >= 0 /\ it.vp + VP <= it.off                      \* vtable pointer before the data
        /\ it.off + it.size <= b.len                               \* data inside the used part
        /\ (b.base + it.off) % it.align = 0                        \* data aligned on its absolute address
        /\ (b.base + it.vp) % VP = 0
        /\ (i > 1 => b.items[i-1].off + b.items[i-1].size <= it.vp)   \* disjoint, in order
        /\ (it.chain # << >> => BufOk(it.chain[1]))
  /\ DrainWalk(b, 0, 1) = [i \in 1..Len(b.items) |-> [vp |-> b.items[i].vp, off |-> b.items[i].off]]

=============================================================================
