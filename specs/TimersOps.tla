----------------------------- MODULE TimersOps -----------------------------
(* The arithmetic and the methods of src/timers/mod.rs as pure operators    *)
(* over a state record; shared by the design spec Timers.tla and the trace  *)
(* specification TimersTrace.tla.  See Timers.tla for the description.      *)
EXTENDS SeqAbs

CONSTANT ClampModMin    \* TRUE: mod_min clamps like add_min (repaired tree); FALSE: the pinned tree

SubBase == 65536          \* 1 << 16
SubMax == 61036           \* sub values 0..61035 are normal; 61036 only from rounding up
HS == 32767               \* 0x7FFF
WrapS == 65536            \* seconds in one turn of the 32-bit cyclic time
FixedBase == 1000000      \* stands for the 0x8000_0000 flag of fixed-timer slots

(* ------------------------------ Time ------------------------------ *)
TCeil(i) == IF i[1] < 0 THEN <<0, 0>> ELSE <<i[1], (i[2] + TickNs - 1) \div TickNs>>
TFloor(i) == IF i[1] < 0 THEN <<0, 0>> ELSE <<i[1], i[2] \div TickNs>>
TLt(a, b) == a[1] < b[1] \/ (a[1] = b[1] /\ a[2] < b[2])
TLe(a, b) == ~TLt(b, a)
TMx(a, b) == IF TLt(a, b) THEN b ELSE a
TMn(a, b) == IF TLt(a, b) THEN a ELSE b
TAddSecs(t, n) == <<t[1] + n, t[2]>>
TInc(t) == <<t[1], t[2] + 1>>
TInstant(t) == LET ns == t[2] * TickNs
               IN IF ns >= NsPerSec THEN <<t[1] + 1, ns - NsPerSec>> ELSE <<t[1], ns>>

(* ---------------------------- WrapTime ---------------------------- *)
Wt(t) == <<t[1] % WrapS, t[2]>>
\* sign of (a - b) taken as a 32-bit signed number
WCmp(a, b) ==
  LET du0 == a[2] - b[2]
      ds0 == (a[1] - b[1]) % WrapS
      du == IF du0 < 0 THEN du0 + SubBase ELSE du0
      ds == IF du0 < 0 THEN (ds0 - 1) % WrapS ELSE ds0
  IN IF ds = 0 /\ du = 0 THEN 0 ELSE IF ds >= WrapS \div 2 THEN -1 ELSE 1
\* WrapTime::time(base)
WtTime(w, base) ==
  LET val == <<base[1] - (base[1] % WrapS) + w[1], w[2]>>
  IN IF TLt(val, base) THEN <<val[1] + WrapS, val[2]>> ELSE val

KeyLt(k1, k2) == WCmp(k1.wt, k2.wt) < 0 \/ (WCmp(k1.wt, k2.wt) = 0 /\ k1.slot < k2.slot)

(* ------------------------- rounded_75point ------------------------ *)
Pow2(n) == 2 ^ n
Bits(v) == CHOOSE b \in 1..31 : Pow2(b - 1) <= v /\ (b = 31 \/ v < Pow2(b))
CeilMult(v, m) == ((v + m - 1) \div m) * m
\* t plus a non-negative number of sub units (carry into seconds at SubBase)
TAddUnits(t, n) == LET u == t[2] + n IN <<t[1] + (u \div SubBase), u % SubBase>>

R75Ok(t0, t1) == TLe(t0, t1)        \* the code computes t1 - t0 unsigned: panics / wraps otherwise
R75(t0, t1) ==
  LET gs0 == t1[1] - t0[1]
      gu0 == t1[2] - t0[2]
      gap == IF gu0 < 0 THEN (gs0 - 1) * SubBase + gu0 + SubBase ELSE gs0 * SubBase + gu0
  IN IF gap < SubBase \div 2 THEN t1
     ELSE
     LET off == 3 * (gap \div 4) + (3 * (gap % 4)) \div 4
         p75 == TAddUnits(t0, off)
         rb == Bits(gap) - 4                   \* round == 2^rb - 1
         rv == IF rb <= 16
               THEN LET u == CeilMult(p75[2], Pow2(rb))
                    IN IF u >= SubBase THEN <<p75[1] + 1, u - SubBase>> ELSE <<p75[1], u>>
               ELSE LET m == Pow2(rb - 16)
                        s == IF p75[2] = 0 THEN p75[1] ELSE p75[1] + 1
                    IN <<CeilMult(s, m), 0>>
     IN IF rv[2] >= SubMax THEN <<rv[1] + 1, 0>> ELSE rv

(* ----------------------------- state ------------------------------ *)
\* tm: [now (Time), cnow (Instant, core.now), queue (set of [wt, slot, cb]),
\*      var (seq of [gnn, kind, expiry, curr, next]), free (0 = None, else slot+1),
\*      seq, keys (tid -> [ty, slot, g]), n (ops done), nt (timers made), nid (next item id),
\*      evs, panicked]
TmInit ==
  [ now |-> <<0, 0>>, cnow |-> <<0, 0>>, queue |-> {}, var |-> << >>, free |-> 0, seq |-> 0,
    keys |-> << >>, n |-> 0, nt |-> 0, nid |-> 1, evs |-> << >>, panicked |-> FALSE, obs |-> {} ]

Emit(s, e) == [s EXCEPT !.evs = Append(@, e)]

AllocSlot(s, item) ==
  \* returns [s, slot, g]
  IF s.free # 0
  THEN LET i == s.free IN
       [s |-> [s EXCEPT !.free = s.var[i].next, !.var[i] = [item EXCEPT !.gnn = s.var[i].gnn]],
        slot |-> i - 1, g |-> s.var[i].gnn]
  ELSE [s |-> [s EXCEPT !.var = Append(@, [item EXCEPT !.gnn = 1])], slot |-> Len(s.var), g |-> 1]

FreeSlot(s, slot) ==
  LET i == slot + 1 IN
  [s EXCEPT !.var[i] = [gnn |-> s.var[i].gnn + 1, kind |-> "free", expiry |-> <<0, 0>>, curr |-> <<0, 0>>, next |-> s.free],
            !.free = i]

VarItem(kind, expiry, curr) == [gnn |-> 0, kind |-> kind, expiry |-> expiry, curr |-> curr, next |-> 0]

QIns(s, wt, slot, cb) == [s EXCEPT !.queue = @ \cup {[wt |-> wt, slot |-> slot, cb |-> cb]}]
QRem(s, wt, slot) == [s EXCEPT !.queue = {e \in @ : ~(e.wt = wt /\ e.slot = slot)}]
QGet(s, wt, slot) == {e \in s.queue : e.wt = wt /\ e.slot = slot}

(* --------------------------- Timers methods ------------------------ *)
AddMax(s, inst, cb) ==
  LET expiry == TCeil(inst)
      curr == TMn(TMx(expiry, TInc(s.now)), TAddSecs(s.now, HS))
      a == AllocSlot(s, VarItem("max", expiry, curr))
  IN [s |-> QIns(a.s, Wt(curr), a.slot, cb), key |-> [ty |-> "max", slot |-> a.slot, g |-> a.g]]

AddFixed(s, inst, cb) ==
  LET expiry == TMx(TCeil(inst), TInc(s.now)) IN
  IF TLe(TAddSecs(s.now, HS), expiry)
  THEN LET r == AddMax(s, inst, cb) IN [s |-> r.s, key |-> [r.key EXCEPT !.ty = "fixedmax"]]
  ELSE LET sq == s.seq + 1 IN
       [s |-> QIns([s EXCEPT !.seq = sq], Wt(expiry), FixedBase + sq, cb),
        key |-> [ty |-> "fixed", slot |-> FixedBase + sq, g |-> Wt(expiry)]]

AddMin(s, inst, cb) ==
  LET expiry == TCeil(inst)
      t0 == TInc(s.now)
      t1 == TMn(TMx(expiry, t0), TAddSecs(s.now, HS))
      curr == R75(t0, t1)
      a == AllocSlot(s, VarItem("min", expiry, curr))
  IN [s |-> QIns(a.s, Wt(curr), a.slot, cb), key |-> [ty |-> "min", slot |-> a.slot, g |-> a.g]]

SlotLive(s, key, kind) ==
  key.slot + 1 <= Len(s.var) /\ s.var[key.slot + 1].gnn = key.g /\ s.var[key.slot + 1].kind = kind

ModMax(s, key, inst) ==
  IF SlotLive(s, key, "max")
  THEN [s |-> [s EXCEPT !.var[key.slot + 1].expiry = TMx(@, TCeil(inst))], res |-> TRUE]
  ELSE [s |-> s, res |-> FALSE]

DelVar(s, key, kind) ==
  IF SlotLive(s, key, kind)
  THEN [s |-> FreeSlot(QRem(s, Wt(s.var[key.slot + 1].curr), key.slot), key.slot), res |-> TRUE]
  ELSE [s |-> s, res |-> FALSE]

DelFixed(s, key) ==
  IF QGet(s, key.g, key.slot) # {} THEN [s |-> QRem(s, key.g, key.slot), res |-> TRUE]
  ELSE [s |-> s, res |-> FALSE]

VarActive(s, key) == key.slot + 1 <= Len(s.var) /\ s.var[key.slot + 1].gnn = key.g

ModMin(s, key, inst) ==
  LET expiry == TCeil(inst) IN
  IF ~SlotLive(s, key, "min") THEN [s |-> s, res |-> FALSE]
  ELSE LET vt == s.var[key.slot + 1] IN
       IF ~TLt(expiry, vt.expiry) THEN [s |-> s, res |-> TRUE]
       ELSE IF ~TLt(expiry, vt.curr)
       THEN [s |-> [s EXCEPT !.var[key.slot + 1].expiry = expiry], res |-> TRUE]
       ELSE \* delete the standing entry and queue a new one
            LET old == QGet(s, Wt(vt.curr), key.slot)
                cb == (CHOOSE e \in old : TRUE).cb
                t0 == TInc(s.now)
                t1 == IF ClampModMin THEN TMn(TMx(expiry, t0), TAddSecs(s.now, HS)) ELSE TMn(expiry, TAddSecs(s.now, HS))
                curr == R75(t0, t1)
                s1 == QRem(s, Wt(vt.curr), key.slot)
                s2 == [s1 EXCEPT !.var[key.slot + 1].expiry = expiry, !.var[key.slot + 1].curr = curr]
            IN IF old = {} \/ ~R75Ok(t0, t1)
               THEN [s |-> [s EXCEPT !.panicked = TRUE], res |-> TRUE]
               ELSE [s |-> QIns(s2, Wt(curr), key.slot, cb), res |-> TRUE]

NextExpiry(s) ==
  IF s.queue = {} THEN [has |-> FALSE, x |-> <<0, 0>>]
  ELSE LET k == CHOOSE e \in s.queue : \A f \in s.queue : f = e \/ KeyLt(e, f)
       IN [has |-> TRUE, x |-> TInstant(WtTime(k.wt, s.now))]

\* one entry of `head` processed by the advance loop; fired is a sequence of cbs
ProcessEntry(acc, e, target) ==
  LET s == acc.s IN
  IF e.slot >= FixedBase THEN [s |-> s, fired |-> Append(acc.fired, e.cb)]
  ELSE LET vt == s.var[e.slot + 1] IN
       IF vt.kind = "free" THEN [s |-> [s EXCEPT !.panicked = TRUE], fired |-> acc.fired]
       ELSE IF TLe(vt.expiry, target)
       THEN [s |-> FreeSlot(s, e.slot), fired |-> Append(acc.fired, e.cb)]
       ELSE IF vt.kind = "max"
       THEN LET curr == TMn(vt.expiry, TAddSecs(s.now, HS)) IN
            [s |-> QIns([s EXCEPT !.var[e.slot + 1].curr = curr], Wt(curr), e.slot, e.cb), fired |-> acc.fired]
       ELSE LET t1 == TMn(vt.expiry, TAddSecs(s.now, HS))
                curr == R75(s.now, t1) IN
            IF ~R75Ok(s.now, t1) THEN [s |-> [s EXCEPT !.panicked = TRUE], fired |-> acc.fired]
            ELSE [s |-> QIns([s EXCEPT !.var[e.slot + 1].curr = curr], Wt(curr), e.slot, e.cb), fired |-> acc.fired]

RECURSIVE AdvanceLoop(_, _, _)
AdvanceLoop(s, target, fired) ==
  IF ~TLt(s.now, target) \/ s.panicked THEN [s |-> s, fired |-> fired]
  ELSE LET now1 == TMn(TAddSecs(s.now, HS), target)
           lim == TInc(Wt(now1))
           head == {e \in s.queue : WCmp(e.wt, lim) < 0}
           hs == SetToSortSeq(head, KeyLt)
           s1 == [s EXCEPT !.queue = @ \ head, !.now = now1]
           r == FoldSeq(LAMBDA e, acc : ProcessEntry(acc, e, target), [s |-> s1, fired |-> fired], hs)
       IN AdvanceLoop(r.s, target, r.fired)

(* ------------------------ API operations + events ------------------ *)
InstPlus(i, dd) == AddDur(i, dd)
InstMinus(i, dd) ==
  IF i[2] >= dd[2] THEN <<i[1] - dd[1], i[2] - dd[2]>> ELSE <<i[1] - dd[1] - 1, i[2] + NsPerSec - dd[2]>>

NexpEv(s) == LET x == NextExpiry(s) IN [e |-> "nexp", has |-> x.has, x |-> x.x]

KindOfKey(k) == IF k.ty = "fixedmax" THEN "fixed" ELSE k.ty

DoAdd(s, kind, inst) ==
  LET tid == s.nt + 1
      cb == s.nid
      r == IF kind = "fixed" THEN AddFixed(s, inst, cb)
           ELSE IF kind = "max" THEN AddMax(s, inst, cb) ELSE AddMin(s, inst, cb)
      s1 == [r.s EXCEPT !.keys = @ @@ (tid :> r.key), !.nt = tid, !.nid = @ + 1]
  IN Emit(s1, [e |-> "tadd", tid |-> tid, kind |-> kind, t |-> inst, item |-> cb, now |-> s.cnow])

DoUpd(s, tid, inst) ==
  LET k == s.keys[tid]
      r == IF k.ty = "max" THEN ModMax(s, k, inst) ELSE ModMin(s, k, inst)
  IN Emit(r.s, [e |-> "tupd", tid |-> tid, kind |-> k.ty, t |-> inst, res |-> r.res, now |-> s.cnow])

DoDel(s, tid) ==
  LET k == s.keys[tid]
      r == IF k.ty = "fixed" THEN DelFixed(s, k)
           ELSE IF k.ty = "fixedmax" THEN DelVar(s, k, "max") ELSE DelVar(s, k, k.ty)
      cbs == IF k.ty = "fixed" THEN {e.cb : e \in QGet(s, k.g, k.slot)}
             ELSE IF r.res THEN {e.cb : e \in QGet(s, Wt(s.var[k.slot + 1].curr), k.slot)} ELSE {}
      s1 == Emit(r.s, [e |-> "tdelb", tid |-> tid])
      s2 == IF r.res /\ cbs # {} THEN Emit(s1, [e |-> "drop", item |-> CHOOSE c \in cbs : TRUE, ran |-> FALSE]) ELSE s1
  IN Emit(s2, [e |-> "tdel", tid |-> tid, kind |-> KindOfKey(k), res |-> r.res])

DoAct(s, tid) ==
  LET k == s.keys[tid] IN
  Emit(s, [e |-> "tact", tid |-> tid, kind |-> k.ty, res |-> VarActive(s, k)])

DoRun(s, inst) ==
  LET adv == Lt(s.cnow, inst)
      s0 == Emit(s, [e |-> "run", t |-> inst, idle |-> FALSE])
      r == IF adv THEN AdvanceLoop([s0 EXCEPT !.cnow = inst], TFloor(inst), << >>) ELSE [s |-> s0, fired |-> << >>]
      nowI == r.s.cnow
      s1 == FoldSeq(LAMBDA cb, acc :
                      Emit(Emit(Emit(acc, [e |-> "x", item |-> cb, now |-> nowI]), [e |-> "xe", item |-> cb]),
                           [e |-> "drop", item |-> cb, ran |-> TRUE]),
                    r.s, r.fired)
  IN Emit(s1, [e |-> "runend", ret |-> FALSE, now |-> nowI])

=============================================================================
