SPECIFICATION Spec
CONSTANTS
  MaxItems = 4
  MaxActors = 1
  MaxOwners = 1
  MaxRets = 2
  MaxTop = 6
  MaxBody = 1
  TopOps <- Ops_RTop
  BodyOps <- Ops_RBody
  MethOps <- Ops_RMeth
  LogLevels = {}
  RunTimes = {1}
INVARIANT NoViolation ExportInvR
VIEW View
CHECK_DEADLOCK FALSE
