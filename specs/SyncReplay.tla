----------------------------- MODULE SyncReplay -----------------------------
(* Implementation -> design spec for the inter-thread code: the schedules    *)
(* (sequences of thread ids) that the deterministic scheduler actually took   *)
(* while running the real code under random / PCT policies are stepped        *)
(* through Sync.tla, and the records the spec produces along each schedule    *)
(* are printed for comparison with the recorded ones.  A schedule naming a    *)
(* thread that the spec considers blocked is itself reported (drift).         *)
EXTENDS MCSync, IOUtils

Scheds == ndJsonDeserialize(IOEnv.SCHEDS)      \* records [name, taken]

VARIABLES c, k, out
rvars == <<s, mon, bad, hist, c, k, out>>

RInit == Init /\ c = 1 /\ k = 1 /\ out = ""

RNext ==
  /\ c <= Len(Scheds)
  /\ LET taken == Scheds[c].taken IN
     IF Finished \/ k > Len(taken) \/ ~Enabled(s, taken[k])
     THEN \* this case is done (or the schedule left the spec): report, go to the next one
          /\ PrintT(<<"RCASE", ToJson([name |-> Scheds[c].name, steps |-> k - 1, finished |-> Finished,
                                       lo |-> hist.lo, hi |-> hist.hi, bad |-> bad])>>)
          /\ s' = SInit
          /\ mon' = [CInit0({}) EXCEPT !.known = IF Kind = "waker" THEN DOMAIN WakerBits
                                                  ELSE {ChanW} \cup (DOMAIN WakerBits \ {ChanW}),
                                       !.piped = Kind = "piped"]
          /\ bad' = {}
          /\ hist' = [sched |-> << >>, lo |-> << >>, hi |-> << >>]
          /\ c' = c + 1 /\ k' = 1 /\ out' = ""
     ELSE LET t == taken[k]
              x == Do(s, t)
              m1 == FoldSeq(LAMBDA rec, acc : IF rec.k = "at" THEN CApplyLo(acc, rec) ELSE acc, mon, x.lo)
              r == Fold(m1, x.evs, Len(hist.hi) + 1)
          IN /\ s' = [x EXCEPT !.evs = << >>, !.lo = << >>]
             /\ mon' = r.st
             /\ bad' = bad \cup r.bad
             /\ hist' = [sched |-> << >>, lo |-> hist.lo \o x.lo, hi |-> hist.hi \o x.evs]
             /\ k' = k + 1 /\ UNCHANGED <<c, out>>

RSpec == RInit /\ [][RNext]_rvars
RDone == c = Len(Scheds) + 1
=============================================================================
