SPECIFICATION Spec
CONSTANTS
  Kind = "channel"
  WakerBits <- NoWakers
  Scripts <- S_c2
  MainScript <- M_cg
  OrdSet = "SeqCst"
  OrdDrain = "SeqCst"
INVARIANT NoViolation Published NoDeadlock
VIEW View
CHECK_DEADLOCK FALSE
