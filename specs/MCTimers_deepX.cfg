SPECIFICATION Spec
CONSTANTS
  MaxOps = 5
  MaxTimers = 2
  AddOffsets <- AddOffsDeep
  RunOffsets <- RunOffsDeep
  Kinds <- MaxOnly
  ClampModMin = TRUE
INVARIANT NoViolation WindowInv SlotInv
VIEW View
CHECK_DEADLOCK FALSE
