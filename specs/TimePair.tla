----------------------------- MODULE TimePair -----------------------------
(* Instants and durations as pairs <<seconds, nanoseconds>>.  TLC's      *)
(* integers are 32-bit, so nanosecond instants spanning hours cannot be  *)
(* single integers.  Seconds may be negative (instant before the start). *)
EXTENDS Integers, Sequences

NsPerSec == 1000000000
TickNs == 16384           \* timer resolution step, 2^14 ns

Lt(a, b) == a[1] < b[1] \/ (a[1] = b[1] /\ a[2] < b[2])
Le(a, b) == ~Lt(b, a)
TMax(a, b) == IF Lt(a, b) THEN b ELSE a
TMin(a, b) == IF Lt(a, b) THEN a ELSE b

\* a + n nanoseconds, 0 <= n < NsPerSec
AddNs(a, n) ==
    LET t == a[2] + n
    IN IF t >= NsPerSec THEN <<a[1] + 1, t - NsPerSec>> ELSE <<a[1], t>>

\* a + duration d (a pair)
AddDur(a, d) == AddNs(<<a[1] + d[1], a[2]>>, d[2])

AddSecs(a, n) == <<a[1] + n, a[2]>>

\* saturating a - b as a duration pair
SubSat(a, b) ==
    IF Le(a, b) THEN <<0, 0>>
    ELSE IF a[2] >= b[2] THEN <<a[1] - b[1], a[2] - b[2]>>
    ELSE <<a[1] - b[1] - 1, a[2] + NsPerSec - b[2]>>

=============================================================================
