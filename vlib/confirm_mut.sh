#!/bin/bash
# confirm_mut.sh <worktree> <patch> <demo.rs> : confirm a seeded change ourselves
# prints: SUITE_WITH=<pass/fail> DEMO_WITH=<pass/fail> DEMO_WITHOUT=<pass/fail>
wt="$1"; patch="$2"; demo="$3"
cd "$wt" || exit 2
git checkout -q -- . ; rm -rf tests; mkdir -p tests
cp "$demo" tests/demo_x.rs
export CARGO_TARGET_DIR="$wt/target"
dw=fail; cargo test --offline --test demo_x >/dev/null 2>&1 && dw=pass
git apply "$patch" || { echo "APPLY-FAILED"; exit 2; }
sw=fail; out=$(cargo test --offline --lib 2>&1 | grep "^test result" | head -1); echo "$out" | grep -q "51 passed; 0 failed" && sw=pass
dm=fail; timeout 300 cargo test --offline --test demo_x >/dev/null 2>&1 && dm=pass
git checkout -q -- . ; rm -rf tests
echo "SUITE_WITH=$sw DEMO_WITH=$dm DEMO_WITHOUT=$dw ($out)"
