#!/bin/bash
# confirm_mut.sh <worktree> <patch> <demo.rs> : confirm a seeded change ourselves
# (cargo features for the demo are read from a first line `// features: a,b`)
# prints: SUITE_WITH=<pass/fail> DEMO_WITH=<pass/fail> DEMO_WITHOUT=<pass/fail>
wt="$1"; patch="$2"; demo="$3"
cd "$wt" || exit 2
git checkout -q -- . ; rm -rf tests; mkdir -p tests
cp "$demo" tests/demo_x.rs
feats=$(head -1 "$demo" | sed -n 's|^// *features: *||p' | tr ',' ' ' | tr ' ' '\n' | grep -E '^[a-z][a-z-]*$' | grep -v -E '^(default|none)$' | xargs | tr ' ' ',')
fa=""; [ -n "$feats" ] && fa="--features $feats"
export CARGO_TARGET_DIR="$wt/target"
dw=fail; timeout 900 cargo test --offline $fa --test demo_x >/dev/null 2>&1 && dw=pass
git apply "$patch" || { echo "APPLY-FAILED"; exit 2; }
sw=fail; out=$(cargo test --offline --lib 2>&1 | grep "^test result" | head -1); echo "$out" | grep -q "51 passed; 0 failed" && sw=pass
dm=fail; timeout 900 cargo test --offline $fa --test demo_x >/dev/null 2>&1 && dm=pass
git checkout -q -- . ; rm -rf tests
echo "SUITE_WITH=$sw DEMO_WITH=$dm DEMO_WITHOUT=$dw feats=[$feats] ($out)"
