#!/bin/bash
# mutround.sh <root> <id...>: run the property's quick check against every m<n>.diff of each property
root="$1"; shift
for id in "$@"; do
  for p in $root/$id-out/m*.diff; do
    [ -f "$p" ] || continue
    n=$(basename $p .diff)
    r=$(/verif/vlib/muttest.sh $p $id 2>&1 | grep -E "VIOLATION|why:|quick:|APPLY|TOOL" | tr '\n' ' ' | cut -c1-330)
    echo "$id $n: $r"
  done
done
