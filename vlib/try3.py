import sys,json,subprocess; sys.path.insert(0,'/verif')
from vlib import syncexport, common
behs = syncexport.parse(open(sys.argv[1]).read())
print("behaviours", len(behs))
cases=[syncexport.build_case(b,"sync-%d"%i) for i,b in enumerate(behs)]
run_list=[{k:v for k,v in c.items() if not k.startswith("pred_")} for c in cases]
open('/verif/work/sync.cases.ndjson','w').write("\n".join(json.dumps(c) for c in run_list)+"\n")
r=subprocess.run(['/verif/harness/target/debug/concdrv','/verif/work/sync.cases.ndjson'],stdout=subprocess.PIPE,text=True)
print("exit",r.returncode)
lines=r.stdout.splitlines()
open('/verif/work/sync.trace','w').write(r.stdout)
per={}; cur=None
for ln in lines:
    e=json.loads(ln)
    if e.get("e")=="case": cur=e["idx"]; per[cur]=[]; continue
    if cur is not None: per[cur].append(e)
nd=0
for i,c in enumerate(cases):
    d=syncexport.compare(c, per.get(i,[]))
    if d:
        nd+=1
        if nd<=3: print(i,d, json.dumps(run_list[i])[:400])
print("drift",nd,"of",len(cases))
