"""Shared machinery: building the harness from /repo, running it, running
TLC (model checking and trace validation), writing evidence."""
import json
import os
import re
import shutil
import subprocess
import sys
import time

VERIF = os.path.dirname(os.path.dirname(os.path.abspath(__file__)))
WORK = os.path.join(VERIF, "work")
SPECS = os.path.join(VERIF, "specs")
HARNESS = os.path.join(VERIF, "harness")
EVID = os.path.join(VERIF, "evidence")
REPLAYS = os.path.join(WORK, "replays")
TLC_JAVA_OPTS = "-Xss1g -Dtlc2.tool.queue.IStateQueue=StateDeque"


class ToolError(Exception):
    pass


def log(*a):
    print(*a, file=sys.stderr, flush=True)


def ensure_dirs():
    for d in (WORK, EVID, REPLAYS):
        os.makedirs(d, exist_ok=True)


def build_harness(features=None, release=False, bin_name="seqdrv", tag=None):
    """Build the harness against /repo's current working tree.  Returns the
    path of a private copy of the binary."""
    ensure_dirs()
    cmd = ["cargo", "build", "--offline", "--bin", bin_name]
    if release:
        cmd.append("--release")
    if features is not None:
        cmd += ["--no-default-features"]
        if features:
            cmd += ["--features", ",".join(features)]
    env = dict(os.environ, CARGO_NET_OFFLINE="true")
    t0 = time.time()
    r = subprocess.run(cmd, cwd=HARNESS, env=env, stdout=subprocess.PIPE, stderr=subprocess.STDOUT, text=True)
    if r.returncode != 0:
        raise ToolError("cargo build failed:\n" + r.stdout[-4000:])
    src = os.path.join(HARNESS, "target", "release" if release else "debug", bin_name)
    tag = tag or ("%s-%s-%s" % (bin_name, "rel" if release else "dbg", "_".join(features) if features is not None else "default"))
    dst = os.path.join(WORK, "bin-" + tag)
    shutil.copy2(src, dst)
    log("built %s in %.1fs" % (tag, time.time() - t0))
    return dst


def run_seqdrv(binary, cases, outdir, name):
    """Run the sequential harness over cases (list of dicts).  Restarts after
    a panic; a crash (signal) is logged as a `crash` event.  Returns the
    trace path and a list mapping trace line numbers (1-based) to case idx."""
    os.makedirs(outdir, exist_ok=True)
    cpath = os.path.join(outdir, name + ".cases.ndjson")
    tpath = os.path.join(outdir, name + ".trace.ndjson")
    with open(cpath, "w") as f:
        for c in cases:
            f.write(json.dumps(c, separators=(",", ":")) + "\n")
    start = 0
    lines = []
    guard = 0
    while start < len(cases):
        guard += 1
        if guard > len(cases) + 5:
            raise ToolError("harness restart loop")
        r = subprocess.run([binary, cpath, "--from", str(start)], stdout=subprocess.PIPE, stderr=subprocess.PIPE, text=True, timeout=600)
        out = r.stdout.splitlines()
        if r.returncode == 0:
            lines += out
            break
        if r.returncode == 3 and out and out[-1].startswith('{"e":"restart"'):
            nxt = json.loads(out[-1])["next"]
            lines += out[:-1]
            start = nxt
            continue
        # abnormal termination: find the case that was running
        last_case = start
        for ln in out:
            if ln.startswith('{"e":"case"'):
                try:
                    last_case = json.loads(ln)["idx"]
                except Exception:
                    pass
        # stdout is only flushed per case, so nothing of the crashing case was printed
        complete = [ln for ln in out]
        lines += complete
        crashed = last_case + 1 if any(ln.startswith('{"e":"case"') for ln in out) else start
        if crashed >= len(cases):
            crashed = len(cases) - 1
        c = cases[crashed]
        msg = ("exit %d " % r.returncode) + (r.stderr.strip().splitlines()[-1] if r.stderr.strip() else "")
        msg = msg.replace('"', "'").replace("\\", "/")[:200]
        lines.append(json.dumps({"e": "case", "name": c["case"], "idx": crashed, "props": c.get("props", [])}))
        lines.append(json.dumps({"e": "crash", "msg": msg}))
        start = crashed + 1
    with open(tpath, "w") as f:
        for ln in lines:
            f.write(ln + "\n")
    return cpath, tpath


def tlc(spec, cfg, metaname, env=None, workers=1, extra=None, timeout=3600, javaopts=None, heap=None):
    """Run TLC; returns (returncode, output text)."""
    ensure_dirs()
    meta = os.path.join(WORK, "tlc-" + metaname)
    shutil.rmtree(meta, ignore_errors=True)
    e = dict(os.environ)
    e["JAVA_TOOL_OPTIONS"] = javaopts if javaopts is not None else TLC_JAVA_OPTS
    if heap:
        e["JAVA_TOOL_OPTIONS"] += " -Xmx" + heap
    if env:
        e.update(env)
    cmd = ["tlc", "-workers", str(workers), "-metadir", meta, "-cleanup", "-noGenerateSpecTE", "-config", cfg]
    if extra:
        cmd += extra
    cmd.append(spec)
    try:
        r = subprocess.run(cmd, cwd=SPECS, env=e, stdout=subprocess.PIPE, stderr=subprocess.STDOUT, text=True, timeout=timeout)
    except subprocess.TimeoutExpired as ex:
        shutil.rmtree(meta, ignore_errors=True)
        raise ToolError("TLC timeout on %s" % spec)
    shutil.rmtree(meta, ignore_errors=True)
    return r.returncode, r.stdout


def tlc_stats(out):
    m = re.search(r"(\d+) states generated, (\d+) distinct states found", out)
    if not m:
        return 0, 0
    return int(m.group(2)), int(m.group(1))


def validate_seq_trace(tpath, name):
    """Validate a recorded trace against SeqAbs via SeqTrace.  Returns dict
    {lines, violations:[{prop,why,line}]} ; raises ToolError if TLC failed to
    consume the trace."""
    rc, out = tlc("SeqTrace.tla", "SeqTrace.cfg", "trace-" + name, env={"TRACE": tpath}, workers=1, heap="6g")
    m = re.search(r'<<"VERDICT", "(.*)">>', out)
    if not m or "Model checking completed. No error has been found." not in out:
        raise ToolError("trace validation did not complete for %s:\n%s" % (tpath, out[-3000:]))
    verdict = json.loads(m.group(1).encode().decode("unicode_escape"))
    return verdict


def case_of_line(tpath, line):
    """Find the case (idx, name) that trace line `line` (1-based) belongs to."""
    idx, name = None, None
    with open(tpath) as f:
        for i, ln in enumerate(f, 1):
            if ln.startswith('{"e":"case"'):
                d = json.loads(ln)
                idx, name = d["idx"], d["name"]
            if i >= line:
                break
    return idx, name


def write_evidence(prop, tier, seed, level, coverage, wall, violations, assumptions):
    ensure_dirs()
    ev = {
        "property_id": prop,
        "tier": tier,
        "seed": seed,
        "level": level,
        "coverage": coverage,
        "assumptions": assumptions,
        "wall_s": round(wall, 2),
        "violations": violations,
    }
    with open(os.path.join(EVID, prop + ".json"), "w") as f:
        json.dump(ev, f, indent=1)


def build_asan(bin_name):
    """Best-effort AddressSanitizer build of a harness binary on the nightly
    toolchain (thorough tier of C16).  Returns the binary path or None."""
    env = dict(os.environ, CARGO_NET_OFFLINE="true", RUSTFLAGS="-Zsanitizer=address",
               CARGO_TARGET_DIR=os.path.join(HARNESS, "target-asan"))
    try:
        r = subprocess.run(["cargo", "+nightly", "build", "--offline", "--target", "x86_64-unknown-linux-gnu", "--bin", bin_name,
                            "--features", "no-resalloc"],
                           cwd=HARNESS, env=env, stdout=subprocess.PIPE, stderr=subprocess.STDOUT, text=True, timeout=1200)
    except Exception:
        return None
    if r.returncode != 0:
        return None
    src = os.path.join(HARNESS, "target-asan", "x86_64-unknown-linux-gnu", "debug", bin_name)
    dst = os.path.join(WORK, "bin-asan-" + bin_name)
    shutil.copy2(src, dst)
    return dst


def run_asan(binary, cpath, ncases):
    """Run a case file under the ASan build; returns list of (case idx, report line)."""
    reports = []
    start = 0
    env = dict(os.environ, ASAN_OPTIONS="detect_leaks=0:abort_on_error=0:exitcode=66")
    guard = 0
    while start < ncases and guard < ncases + 5:
        guard += 1
        r = subprocess.run([binary, cpath, "--from", str(start)], stdout=subprocess.PIPE, stderr=subprocess.PIPE, text=True, env=env, timeout=1800)
        out = r.stdout.splitlines()
        if r.returncode == 0:
            break
        if r.returncode in (3, 4) and out and out[-1].startswith('{"e":"restart"'):
            start = json.loads(out[-1])["next"]
            continue
        last = start
        for ln in out:
            if ln.startswith('{"e":"case"') or ln.startswith('{"e":"qcase"'):
                try:
                    last = json.loads(ln)["idx"]
                except Exception:
                    pass
        msg = ""
        for ln in r.stderr.splitlines():
            if "AddressSanitizer" in ln:
                msg = ln.strip()[:200]
                break
        if msg:
            reports.append((last, msg))
        start = last + 1
    return reports


def validate_timers_design(tpath, name):
    """Trace validation against the design spec of the timers (TimersTrace):
    returns {lines, ndrift, first}.  Drift is informational."""
    rc, out = tlc("TimersTrace.tla", "TimersTrace.cfg", "ttrace-" + name, env={"TRACE": tpath}, workers=1, heap="6g")
    m = re.search(r'<<"DVERDICT", "(.*)">>', out)
    if not m or "Model checking completed. No error has been found." not in out:
        raise ToolError("design-level timer trace validation did not complete for %s:\n%s" % (tpath, out[-3000:]))
    return json.loads(m.group(1).encode().decode("unicode_escape"))
