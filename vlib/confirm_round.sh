#!/bin/bash
# confirm_round.sh <root> <id...> : confirm every m<n>.diff of the given properties in their scratch worktrees
root="$1"; shift
for id in "$@"; do
  for p in $root/$id-out/m*.diff; do
    [ -f "$p" ] || continue
    n=$(basename $p .diff); n=${n#m}
    demo=$root/$id-out/demo_$n.rs
    [ -f "$demo" ] || continue
    echo "$id m$n: $(/verif/vlib/confirm_mut.sh $root/$id $p $demo 2>&1 | tail -1)"
  done
done
