"""Seeded random program generators for the sequential harness (seqdrv).

Every generator returns a list of cases; a case is
{"case": name, "props": [...], "ops": [...]} in the op language seqdrv
interprets.  Instants are [s, ns] pairs relative to the Stakker's start.
"""
import random
import zlib

TICK = 16384
NS = 1_000_000_000
H = 32767
LAST_TICK = 61035 * TICK  # 999_997_440: start of the short last tick of a second


def tnorm(s, ns):
    s += ns // NS
    ns %= NS
    return [s, ns]


def tadd(t, d):
    return tnorm(t[0] + d[0], t[1] + d[1])


def tlt(a, b):
    return (a[0], a[1]) < (b[0], b[1])


def tmax(a, b):
    return b if tlt(a, b) else a


class Ids:
    def __init__(self):
        self.item = 0
        self.tid = 0
        self.aid = 0
        self.oid = 0
        self.rid = 0
        self.fid = 0

    def next(self, k):
        v = getattr(self, k) + 1
        setattr(self, k, v)
        return v


def small_delta(rng):
    """Duration (pair) biased to quantisation edges."""
    c = rng.random()
    if c < 0.10:
        return [0, 0]
    if c < 0.25:
        return [0, rng.choice([1, TICK - 1, TICK, TICK + 1, 2 * TICK - 1, 2 * TICK, 2 * TICK + 1, 3 * TICK])]
    if c < 0.35:
        return [0, rng.randrange(0, 5 * TICK)]
    if c < 0.50:
        return [0, rng.randrange(0, NS)]
    if c < 0.60:
        return [rng.randrange(0, 3), rng.choice([LAST_TICK - 1, LAST_TICK, LAST_TICK + 1, NS - 1, NS - TICK, 0, 1])]
    if c < 0.80:
        return [rng.randrange(0, 120), rng.randrange(0, NS)]
    if c < 0.90:
        return [rng.choice([H - 1, H, H + 1, 2 * H, 2 * H + 1, 65535, 65536, 65537, 3 * H]), rng.choice([0, 1, TICK, NS - 1, rng.randrange(0, NS)])]
    return [rng.randrange(0, 200000), rng.randrange(0, NS)]


def align_edge(rng, t):
    """Move an instant onto / next to a tick or second boundary."""
    c = rng.random()
    s, ns = t
    if c < 0.3:
        k = ns // TICK
        return tnorm(s, k * TICK + rng.choice([-1, 0, 1]))
    if c < 0.45:
        return [s, rng.choice([LAST_TICK - 1, LAST_TICK, LAST_TICK + 1, NS - 1])]
    if c < 0.55:
        return [s, rng.choice([0, 1])]
    return t


def instant_near(rng, now, allow_past=True):
    c = rng.random()
    if allow_past and c < 0.15:
        d = small_delta(rng)
        s = now[0] - d[0]
        ns = now[1] - d[1]
        t = tnorm(s, ns)
        if t[0] < -100000:
            t = [-100000, 0]
        return t
    if allow_past and c < 0.20:
        return list(now)
    return align_edge(rng, tadd(now, small_delta(rng)))


# ---------------------------------------------------------------- queues

def gen_item(rng, ids, depth, st, kinds):
    it = {"id": ids.next("item"), "shape": rng.randrange(0, 35), "ops": []}
    if st.get("rets") and rng.random() < (0.5 if depth == 0 else 0.35):
        rid = st["rets"].pop()
        it["holds"] = {"rets": [rid]}
        if rng.random() < 0.4:
            it["ops"].append({"op": "ret", "rid": rid, "val": rid})
    n = rng.choice([0, 0, 1, 1, 2, 3]) if depth < st["maxdepth"] else 0
    for _ in range(n):
        if st["budget"] <= 0:
            break
        it["ops"].append(gen_qop(rng, ids, depth + 1, st, kinds, nested=True))
    if rng.random() < 0.15 and st["budget"] > 0 and depth < st["maxdepth"]:
        st["budget"] -= 1
        it["ondrop"] = [{"op": "defer", "via": "deferrer",
                         "item": gen_item(rng, ids, depth + 1, st, kinds)}]
    return it


def gen_qop(rng, ids, depth, st, kinds, nested):
    st["budget"] -= 1
    k = rng.choice(kinds)
    if k == "defer":
        return {"op": "defer", "via": rng.choice(["core", "core", "deferrer"]),
                "item": gen_item(rng, ids, depth, st, kinds)}
    if k == "lazy":
        return {"op": "lazy", "item": gen_item(rng, ids, depth, st, kinds)}
    if k == "idle":
        it = gen_item(rng, ids, depth, st, kinds)
        if rng.random() < 0.12 and not nested:
            # an idle callback that runs the queues itself (re-entrant run)
            st["rerun"] = st.get("rerun", 0) + 1
            it["ops"].append({"op": "rerun", "dt": rng.choice([[0, 0], [0, 1], [2, 0], [61, 0]]), "idle": rng.random() < 0.3})
        return {"op": "idle", "item": it}
    if k == "after":
        d = small_delta(rng)
        if d[0] > 100:
            d = [rng.randrange(0, 90), d[1]]
        return {"op": "after", "tid": ids.next("tid"), "d": d,
                "item": gen_item(rng, ids, depth, st, kinds)}
    if k == "startinst":
        return {"op": "startinst"}
    raise AssertionError(k)


def run_delta(rng):
    c = rng.random()
    if c < 0.12:
        return [0, 0]
    if c < 0.30:
        return [0, rng.choice([1, TICK - 1, TICK, TICK + 1, 2 * TICK, 100000])]
    if c < 0.55:
        return [rng.randrange(0, 5), rng.randrange(0, NS)]
    if c < 0.70:
        return [rng.choice([59, 60, 61, 62, 121]), rng.choice([0, 1, NS - 1])]
    if c < 0.80:
        return None  # go backwards
    if c < 0.92:
        return [rng.randrange(5, 100), rng.randrange(0, NS)]
    return [rng.choice([H, H + 1, 65536, 70000, 200000]), rng.randrange(0, NS)]


def gen_queue_case(rng, name, props, big=False):
    ids = Ids()
    st = {"budget": rng.choice([6, 12, 25, 40]) if not big else 120, "maxdepth": rng.choice([1, 2, 3, 5])}
    kinds = ["defer"] * 5 + ["lazy"] * 2 + ["idle"] * 2 + ["after"] * 2 + ["startinst"]
    ops = []
    now = [0, 0]
    tmaxi = [0, 0]
    nsteps = rng.randrange(2, 9)
    st["rets"] = []
    for _ in range(nsteps):
        for _ in range(rng.randrange(0, 5)):
            if st["budget"] <= 0:
                break
            if rng.random() < 0.2:
                rid = ids.next("rid")
                ops.append({"op": "mkret", "rid": rid, "kind": "plain"})
                st["rets"].append(rid)
            ops.append(gen_qop(rng, ids, 0, st, kinds, nested=False))
        if big and rng.random() < 0.5:
            # burst of large closures: force buffer growth and chaining
            for _ in range(rng.randrange(5, 40)):
                ops.append({"op": "defer", "via": "core",
                            "item": {"id": ids.next("item"), "shape": rng.choice([5, 6, 12, 13, 19, 20, 26, 27, 33, 34, 3, 4]), "ops": []}})
        d = run_delta(rng)
        if d is None:
            t = tnorm(now[0] - rng.randrange(0, 50), now[1] - rng.randrange(0, NS))
            if t[0] < 0:
                t = [0, 0]
        else:
            t = tadd(tmaxi, d)
        now = t
        tmaxi = tmax(tmaxi, t)
        ops.append({"op": "run", "t": t, "idle": rng.random() < 0.4})
        # re-entrant runs inside idle items advance beyond the enclosing run's instant
        def fix(o):
            nonlocal tmaxi
            for x in o:
                if x.get("op") == "rerun" and "t" not in x:
                    x["t"] = tadd(tmax(tmaxi, t), x.pop("dt"))
                    tmaxi = tmax(tmaxi, x["t"])
                if "item" in x:
                    fix(x["item"].get("ops", []))
                    fix(x["item"].get("ondrop", []))
        fix(ops)
        if rng.random() < 0.3:
            ops.append({"op": "startinst"})
    if rng.random() < 0.5:
        # leave work pending, then drop the Stakker
        for _ in range(rng.randrange(1, 6)):
            st["budget"] = max(st["budget"], 3)
            if rng.random() < 0.3:
                rid = ids.next("rid")
                ops.append({"op": "mkret", "rid": rid, "kind": "plain"})
                st["rets"].append(rid)
            ops.append(gen_qop(rng, ids, 0, st, kinds, nested=False))
        if rng.random() < 0.7:
            ops.append({"op": "drop_stakker"})
    else:
        # final quiescing runs incl. idle backlog
        for _ in range(rng.randrange(0, 4)):
            tmaxi = tadd(tmaxi, [rng.randrange(0, 100), 0])
            ops.append({"op": "run", "t": tmaxi, "idle": True})
    return {"case": name, "props": props, "acyclic": True, "ops": ops}


# ---------------------------------------------------------------- timers

def gen_timer_case(rng, name, props, nops=None, drain=None):
    ids = Ids()
    ops = []
    now = [0, 0]
    live = []          # (tid, kind) possibly live
    allk = []          # every (tid, kind) ever issued
    topk = []          # those created by top-level ops (certainly exist)
    nops = nops or rng.choice([6, 10, 16, 30])

    def cb_item(depth=0):
        it = {"id": ids.next("item"), "ops": []}
        if depth == 0 and rng.random() < 0.2:
            rid = ids.next("rid")
            ops.append({"op": "mkret", "rid": rid, "kind": "plain"})
            it["holds"] = {"rets": [rid]}
        if depth == 0 and rng.random() < 0.25:
            # callbacks that manipulate timers themselves
            for _ in range(rng.randrange(1, 3)):
                c = rng.random()
                if c < 0.5:
                    kind = rng.choice(["fixed", "max", "min"])
                    tid = ids.next("tid")
                    d = small_delta(rng)
                    it["ops"].append({"op": "after" if kind == "fixed" else "tadd", "tid": tid, "kind": kind,
                                      "d": d, "t": tadd(now, d), "item": cb_item(depth + 1)})
                    allk.append((tid, kind))
                elif allk:
                    tid, kind = rng.choice(allk)
                    it["ops"].append({"op": "tdel", "tid": tid})
        return it

    for _ in range(nops):
        c = rng.random()
        if c < 0.30 or not allk:
            kind = rng.choice(["fixed", "fixed", "max", "min", "min"])
            tid = ids.next("tid")
            ops.append({"op": "tadd", "tid": tid, "kind": kind, "t": instant_near(rng, now), "item": cb_item()})
            live.append((tid, kind))
            allk.append((tid, kind))
            topk.append((tid, kind))
        elif c < 0.45:
            cand = [x for x in allk if x[1] != "fixed"]
            if cand:
                tid, kind = rng.choice(cand)
                ops.append({"op": "tupd", "tid": tid, "t": instant_near(rng, now)})
        elif c < 0.52:
            tid, kind = rng.choice(allk)
            ops.append({"op": "tdel", "tid": tid})
        elif c < 0.57:
            cand = [x for x in allk if x[1] != "fixed"]
            if cand:
                tid, kind = rng.choice(cand)
                ops.append({"op": "tact", "tid": tid})
        elif c < 0.60:
            kind = rng.choice(["fixed", "max", "min"])
            o = rng.choice(["tdel", "tupd", "tact"])
            if kind == "fixed":
                o = "tdel"
            op = {"op": o, "tid": -1, "kind": kind}
            if o == "tupd":
                op["t"] = instant_near(rng, now)
            ops.append(op)
        elif c < 0.66:
            kind = rng.choice(["max", "min"])
            same = [x for x in topk if x[1] == kind]
            if same and rng.random() < 0.7:
                tid = rng.choice(same)[0]
            else:
                tid = ids.next("tid")
                allk.append((tid, kind))
                topk.append((tid, kind))
            ops.append({"op": "tmac", "tid": tid, "kind": kind, "t": instant_near(rng, now), "item": cb_item(1)})
        elif c < 0.72:
            ops.append({"op": "nexp"})
        elif c < 0.76:
            ops.append({"op": "nwait", "now": instant_near(rng, now)})
        elif c < 0.80:
            if rng.random() < 0.15:
                ops.append({"op": "shutdown"})       # a pending shutdown request must not change the waits
            ops.append({"op": "nwaitmax", "now": instant_near(rng, now),
                        "max": rng.choice([[0, 0], [0, TICK], [60, 0], [100000, 0], [0, 1]]),
                        "pending": rng.random() < 0.3})
        else:
            d = run_delta(rng)
            if d is None:
                t = tnorm(now[0] - rng.randrange(0, 50), now[1] - rng.randrange(0, NS))
                if t[0] < 0:
                    t = [0, 0]
                ops.append({"op": "run", "t": t, "idle": False})
            else:
                t = align_edge(rng, tadd(now, d))
                ops.append({"op": "run", "t": t, "idle": False})
                now = tmax(now, t)
            ops.append({"op": "nexp"})
    if drain if drain is not None else rng.random() < 0.5:
        ops.append({"op": "drain_nexp", "max": 400})
    return {"case": name, "props": props, "acyclic": True, "ops": ops}


def gen_c19_case(rng, name, props):
    """Sets of fixed timers with close / equal deadlines fired by few runs."""
    ids = Ids()
    ops = []
    now = [0, 0]
    if rng.random() < 0.4:
        # current time with a sub-second part
        now = [rng.randrange(0, 3), rng.choice([rng.randrange(1, NS), NS - 1, 900000000, 500000000])]
        ops.append({"op": "run", "t": now, "idle": False})
    base = align_edge(rng, tadd(now, [rng.choice([0, 1, 30, 1000, 30000, H - 2, H - 1, H - 1]), rng.randrange(0, NS)]))
    for rnd in range(rng.randrange(1, 4)):
        n = rng.randrange(2, 9)
        for _ in range(n):
            c = rng.random()
            if c < 0.35:
                t = list(base)
            elif c < 0.6:
                t = tnorm(base[0], base[1] + rng.choice([-3, -2, -1, 1, 2, 3, 4]) * TICK + rng.choice([-1, 0, 1]))
            elif c < 0.8:
                # spread over a second or so (still close to `base`, e.g. just below the 32767 s limit)
                t = tnorm(base[0], base[1] + rng.randrange(-NS, NS))
            else:
                t = instant_near(rng, now)
            if t[0] < -1000:
                t = [0, 0]
            if rng.random() < 0.2:
                ops.append({"op": "defer", "item": {"id": ids.next("item"), "ops": []}})
            ops.append({"op": "tadd", "tid": ids.next("tid"), "kind": "fixed", "t": t,
                        "item": {"id": ids.next("item"), "ops": []}})
        if rng.random() < 0.6:
            d = rng.choice([[0, TICK], [0, 3 * TICK], [1, 0], [40, 0], [40000, 0], [100000, 5]])
            t = tadd(tmax(now, base), d) if rng.random() < 0.7 else tadd(now, d)
            ops.append({"op": "run", "t": t, "idle": False})
            now = tmax(now, t)
            base = tadd(now, [rng.choice([0, 2, 100]), rng.randrange(0, NS)])
    ops.append({"op": "run", "t": tadd(tmax(now, base), [rng.choice([1, 70000, 200000]), 0]), "idle": False})
    return {"case": name, "props": props, "acyclic": True, "ops": ops}


# ---------------------------------------------------------------- actors

def gen_actor_case(rng, name, props, logger=False):
    ids = Ids()
    ops = []
    now = [0, 0]
    actors = []     # aids
    owners = {}     # oid -> aid  (top-level registry view; approximate)
    rets = []
    fwds = []
    budget = [rng.choice([10, 20, 35])]

    if logger:
        levels = rng.choice([["open"], ["info"], ["off"], ["trace", "open"], ["error", "audit"],
                             ["warn", "close"], ["audit"], ["debug", "audit", "open"]])
        late_logger = rng.random() < 0.2      # installed only after some actors exist: ids were handed out all along
        first_logger = {"op": "setlogger", "levels": levels, "sink": (not late_logger) and rng.random() < 0.3}
        if not late_logger:
            ops.append(first_logger)

    def init_item(kind, depth=0):
        it = {"id": ids.next("item"), "ops": [], "ret": "none"}
        if kind == "now":
            it["ret"] = "some"
        elif kind == "fail":
            it["ops"].append({"op": "fail", "code": "init%d" % it["id"]})
        elif kind == "stopinit":
            it["ops"].append({"op": "stop"})
        elif kind == "failsome":
            # fails and still returns a value: the failure must win
            it["ops"].append({"op": "fail", "code": "fs%d" % it["id"]})
            it["ret"] = "some"
        elif kind == "never":
            pass
        return it

    def mk_actor(ctx_ops, slab=False, pn="", inm=False):
        aid = ids.next("aid")
        oid = ids.next("oid")
        kind = rng.choice(["now", "now", "now", "async", "async", "fail", "never", "stopinit", "failsome"])
        op = {"op": "acreate", "aid": aid, "oid": oid, "slab": slab, "form": rng.choice([0, 0, 1, 2])}
        if pn:
            op["pnotify"] = pn      # the child's notifier is also wired to its parent (ret_fail! / ret_failthru!)
        if not slab and rng.random() < (0.3 if inm else 0.08):
            # an actor of a boxed trait-object type (actor_of_trait!): created, initialised at once, later released
            ctx_ops.append({"op": "tcreate", "aid": aid, "oid": oid,
                            "init": {"id": ids.next("item"), "ops": [], "ret": "some"}})
            owners[oid] = aid
            return aid
        if kind == "async":
            steps = rng.randrange(1, 4)
            # chain of prep calls to self
            last = {"id": ids.next("item"), "ops": [], "ret": "some"}
            if rng.random() < 0.25:
                last["ret"] = rng.choice(["none", "some"])
                last["ops"].append({"op": "fail", "code": "late%d" % last["id"]})
            cur = last
            for _ in range(steps):
                cur = {"id": ids.next("item"), "ret": "none",
                       "ops": [{"op": "call", "aid": aid, "prep": True, "item": cur}]}
            if rng.random() < 0.3:
                # children put into a slab while the parent is still in Prep
                for _ in range(rng.randrange(1, 3)):
                    caid = ids.next("aid")
                    ckind = rng.choice(["now", "fail", "stopinit", "now"])
                    cur["ops"].insert(0, {"op": "acreate", "aid": caid, "oid": 0, "slab": True,
                                          "init": init_item(ckind)})
                    actors.append(caid)
            op["init"] = cur
        else:
            op["init"] = init_item(kind)
        ctx_ops.append(op)
        actors.append(aid)
        if not slab:
            owners[oid] = aid
        return aid

    def meth_item(aid, depth):
        it = {"id": ids.next("item"), "ops": []}
        n = rng.choice([0, 0, 1, 1, 2])
        for _ in range(n):
            if budget[0] <= 0 or depth > 2:
                break
            budget[0] -= 1
            c = rng.random()
            if c < 0.12:
                it["ops"].append({"op": "stop"})
            elif c < 0.22:
                it["ops"].append({"op": "fail", "code": rng.choice(["f%d" % it["id"], "f%d" % it["id"], "flit{{1}}"])})
            elif c < 0.45 and actors:
                tgt = rng.choice(actors)
                it["ops"].append({"op": "call", "aid": tgt, "item": meth_item(tgt, depth + 1)})
            elif c < 0.49:
                # a trait-object child created from inside a method (its Open record names this actor as parent)
                taid = ids.next("aid")
                toid = ids.next("oid")
                it["ops"].append({"op": "tcreate", "aid": taid, "oid": toid,
                                  "init": {"id": ids.next("item"), "ops": [], "ret": "some"}})
                owners[toid] = taid
            elif c < 0.55:
                mk_actor(it["ops"], slab=rng.random() < 0.6, pn=rng.choice(["", "", "fail", "failthru"]), inm=True)
            elif c < 0.65 and [o for o in owners if owners[o] > aid]:
                # ownership edges only point to younger actors: the owner graph stays acyclic
                oid = rng.choice([o for o in owners if owners[o] > aid])
                it["ops"].append({"op": "keepown", "oid": oid})
                owners.pop(oid, None)
            elif c < 0.72 and owners:
                oid = rng.choice(list(owners))
                it["ops"].append({"op": "owndrop", "oid": oid})
                owners.pop(oid, None)
            elif c < 0.80 and rets:
                rid = rets.pop(rng.randrange(len(rets)))
                it["ops"].append(rng.choice([{"op": "ret", "rid": rid, "val": rid * 10},
                                             {"op": "retdrop", "rid": rid},
                                             {"op": "keepret", "rid": rid}]))
            elif c < 0.84:
                # a Ret made with ret_fail!: whatever becomes of it, this actor will be failed
                rid = ids.next("rid")
                it["ops"].append({"op": "mkret", "rid": rid, "kind": "retfail", "aid": aid})
                rets.append(rid)
            elif c < 0.88 and fwds:
                it["ops"].append({"op": "fwd", "fid": rng.choice(fwds), "val": it["id"]})
            else:
                k = rng.random()
                if k < 0.4:
                    it["ops"].append({"op": "defer", "item": {"id": ids.next("item"), "ops": []}})
                elif k < 0.7 and actors:
                    # Actor::defer through a reference to any actor, whatever its state
                    it["ops"].append({"op": "defer", "via": "actor", "aid": rng.choice(actors),
                                      "item": {"id": ids.next("item"), "ops": []}})
                else:
                    # deferred from the actor value's own Drop handler (Actor::defer, no Core access)
                    it["ops"].append({"op": "vdefer", "item": {"id": ids.next("item"), "ops": []}})
        # a message may carry owners / rets
        holds = {}
        if [o for o in owners if owners[o] > aid] and rng.random() < 0.12:
            oid = rng.choice([o for o in owners if owners[o] > aid])
            holds["owns"] = [oid]
            owners.pop(oid, None)
        if rets and rng.random() < 0.25:
            rid = rets.pop(rng.randrange(len(rets)))
            holds["rets"] = [rid]
            if rng.random() < 0.5:
                it["ops"].append({"op": "ret", "rid": rid, "val": rid * 10 + 1})
            elif rng.random() < 0.5:
                it["ops"].append({"op": "keepret", "rid": rid})
        if holds:
            it["holds"] = holds
        return it

    nsteps = rng.randrange(2, 8)
    for stepno in range(nsteps):
        if logger and late_logger and stepno == 1:
            ops.append(first_logger)
        for _ in range(rng.randrange(1, 6)):
            if budget[0] <= 0:
                break
            budget[0] -= 1
            c = rng.random()
            if c < 0.18 or not actors:
                mk_actor(ops)
            elif c < 0.45:
                tgt = rng.choice(actors)
                q = rng.choice(["main"] * 6 + ["lazy", "idle"])
                if q == "main":
                    ops.append({"op": "call", "aid": tgt, "item": meth_item(tgt, 0)})
                else:
                    # lazy!/idle!([actor], method()): a closure applying the call when its turn comes
                    ops.append({"op": q, "item": {"id": ids.next("item"), "ops": [
                        {"op": "apply", "aid": tgt, "item": meth_item(tgt, 0)}]}})
            elif c < 0.47:
                # query!: synchronous; the method may stop/fail the actor on the spot
                tgt = rng.choice(actors)
                qi = meth_item(tgt, 2)
                if rng.random() < 0.5:
                    ops.append({"op": "query", "aid": tgt, "item": qi})
                else:
                    ops.append({"op": rng.choice(["defer", "lazy", "idle"]), "item": {"id": ids.next("item"), "ops": [
                        {"op": "query", "aid": tgt, "item": qi}]}})
                if rng.random() < 0.5:
                    ops.append({"op": "zombie", "aid": tgt})
            elif c < 0.50:
                tgt = rng.choice(actors)
                ops.append({"op": "call", "aid": tgt, "prep": True,
                            "item": {"id": ids.next("item"), "ops": [], "ret": rng.choice(["some", "none"])}})
            elif c < 0.58 and owners:
                oid = rng.choice(list(owners))
                if rng.random() < 0.25:
                    # the owner (and maybe a Ret) goes because the frame holding it panics
                    op = {"op": "unwinddrop", "oids": [oid], "rids": []}
                    if rets and rng.random() < 0.5:
                        op["rids"].append(rets.pop(rng.randrange(len(rets))))
                    ops.append(op)
                else:
                    ops.append({"op": "owndrop", "oid": oid})
                if rng.random() < 0.4:
                    ops.append({"op": "zombie", "aid": owners[oid]})     # not a Zombie before the queued termination has run
                owners.pop(oid, None)
            elif c < 0.64 and owners:
                oid = rng.choice(list(owners))
                oid2 = ids.next("oid")
                ops.append({"op": "ownclone", "oid": oid, "oid2": oid2})
                owners[oid2] = owners[oid]
            elif c < 0.70 and owners:
                oid = rng.choice(list(owners))
                if rng.random() < 0.35:
                    # kill!: queued, through an extra owner
                    ops.append({"op": "dkill", "oid": oid, "code": rng.choice(["d%d" % ids.next("item"), "lit{{0}}"])})
                else:
                    ops.append({"op": "kill", "oid": oid, "code": "k%d" % oid})
            elif c < 0.76:
                rid = ids.next("rid")
                kind = rng.choice(["plain", "plain", "to", "someto", "somedo", "toprep"])
                op = {"op": "mkret", "rid": rid, "kind": kind}
                if kind in ("to", "someto", "toprep"):
                    op["aid"] = rng.choice(actors)
                ops.append(op)
                rets.append(rid)
            elif c < 0.80 and rets:
                rid = rets.pop(rng.randrange(len(rets)))
                ops.append(rng.choice([{"op": "ret", "rid": rid, "val": rid * 10}, {"op": "retdrop", "rid": rid}]))
            elif c < 0.85:
                fid = ids.next("fid")
                if rng.random() < 0.25:
                    ops.append({"op": "mkfwd", "fid": fid, "kind": "do"})
                else:
                    ops.append({"op": "mkfwd", "fid": fid, "aid": rng.choice(actors)})
                fwds.append(fid)
            elif c < 0.90 and fwds:
                ops.append({"op": "fwd", "fid": rng.choice(fwds), "val": ids.next("item")})
            elif c < 0.915:
                ops.append({"op": "defer", "via": "actor", "aid": rng.choice(actors),
                            "item": {"id": ids.next("item"), "ops": []}})
            elif c < 0.93:
                ops.append({"op": "refstorm", "aid": rng.choice(actors), "n": rng.randrange(1, 6)})
            elif c < 0.96:
                tgt = rng.choice(actors)
                d = small_delta(rng)
                if d[0] > 50:
                    d = [rng.randrange(0, 50), d[1]]
                ops.append({"op": "tadd", "tid": ids.next("tid"), "kind": "fixed", "t": tadd(now, d),
                            "item": {"id": ids.next("item"), "ops": [
                                {"op": "apply", "aid": tgt, "item": meth_item(tgt, 1)}]}})
            elif owners:
                oid = rng.choice(list(owners))
                ops.append({"op": "ownanon", "oid": oid})
                owners.pop(oid, None)
            if rng.random() < 0.02:
                # a shutdown request is pending for a while: only the event loop may care
                ops.append({"op": "shutdown"})
            elif rng.random() < 0.02:
                ops.append({"op": "shutreason"})
            if logger and rng.random() < 0.1:
                ops.append({"op": "logcheck"})
            if logger and rng.random() < 0.08:
                ops.append({"op": "log", "level": rng.choice(["trace", "debug", "info", "warn", "error", "audit"])})
            if logger and rng.random() < 0.04:
                # the logger is replaced while actors are alive: ids keep counting, the new filter applies
                ops.append({"op": "setlogger", "sink": False,
                            "levels": rng.choice([["open"], ["open", "warn"], ["trace", "open"], ["info"], ["debug", "audit", "open"]])})
            if logger and rng.random() < 0.05:
                ops.append({"op": "logfilter", "levels": rng.choice([["open"], ["off"], ["info"], ["warn", "open"], ["audit"]])})
        now = tadd(now, rng.choice([[0, 0], [0, 1], [1, 0], [10, 5], [61, 0]]))
        ops.append({"op": "run", "t": now, "idle": rng.random() < 0.4})
        for a in actors:
            if rng.random() < 0.5:
                ops.append({"op": "zombie", "aid": a})
            ops.append({"op": "slablen", "aid": a})
    if rng.random() < 0.35:
        # leave traffic pending and drop the Stakker
        for _ in range(rng.randrange(1, 4)):
            if actors:
                tgt = rng.choice(actors)
                ops.append({"op": "call", "aid": tgt, "item": meth_item(tgt, 1)})
        ops.append({"op": "drop_stakker"})
    else:
        now = tadd(now, [100, 0])
        ops.append({"op": "run", "t": now, "idle": True})
        ops.append({"op": "run", "t": now, "idle": True})
    return {"case": name, "props": props, "acyclic": True, "ops": ops}


def gen_grow_case(rng, name, props):
    """Closures whose space requirement sits next to a buffer-size boundary,
    pushed onto fresh (small) non-empty queues: growth + chaining edges."""
    ids = Ids()
    ops = []
    now = [0, 0]
    for _ in range(rng.randrange(3, 9)):
        pre = rng.randrange(0, 4)
        for _ in range(pre):
            ops.append({"op": rng.choice(["defer", "defer", "lazy"]),
                        "item": {"id": ids.next("item"), "shape": rng.choice([0, 1, 2, 3, 9, 16]), "ops": []}})
        q = rng.choice(["defer", "defer", "defer", "lazy"])
        big = {"id": ids.next("item"), "shape": rng.randrange(35, 80), "ops": []}
        if rng.random() < 0.3:
            # pushed from inside a running closure instead
            ops.append({"op": "defer", "item": {"id": ids.next("item"), "shape": 2, "ops": [
                {"op": "defer", "item": {"id": ids.next("item"), "shape": 0, "ops": []}}, {"op": q, "item": big}]}})
        else:
            ops.append({"op": q, "item": big})
        for _ in range(rng.randrange(0, 3)):
            ops.append({"op": "defer", "item": {"id": ids.next("item"), "shape": rng.randrange(0, 80), "ops": []}})
        if rng.random() < 0.85:
            # >60 s later: the queues are recreated after this run, so the next round starts small again
            now = tadd(now, [rng.choice([61, 61, 62, 5]), 1])
            ops.append({"op": "run", "t": now, "idle": False})
    if rng.random() < 0.3:
        ops.append({"op": "drop_stakker"})
    return {"case": name, "props": props, "acyclic": True, "ops": ops}


_IDKEYS = ("id", "aid", "oid", "oid2", "rid", "fid", "tid")


def _remap(x, off):
    """Shift every identifier of a generated program (second life of a case)."""
    if isinstance(x, list):
        return [_remap(v, off) for v in x]
    if isinstance(x, dict):
        out = {}
        for k, v in x.items():
            if k in _IDKEYS and isinstance(v, int) and v > 0:
                out[k] = v + off
            elif k in ("owns", "rets") and isinstance(v, list):
                out[k] = [i + off for i in v]
            else:
                out[k] = _remap(v, off)
        return out
    return x


def gen_restakker_case(rng, name, props):
    """Two lives on one thread: a program that is cut short by dropping its
    Stakker with traffic pending (and handles released only afterwards), then
    a second Stakker running an unrelated program."""
    fam1 = rng.choice(["a", "a", "q"])
    first = FAMILIES[fam1](rng, name, props)
    ops1 = list(first["ops"])
    # cut the first life short, somewhere after its first run
    runs = [i for i, o in enumerate(ops1) if o.get("op") == "run"]
    if runs and rng.random() < 0.7:
        ops1 = ops1[:rng.choice(runs) + (1 if rng.random() < 0.5 else 0)]
    ops1 = [o for o in ops1 if o.get("op") != "drop_stakker"]
    if rng.random() < 0.5:
        ops1.append({"op": "drop_stakker"})
        # post-mortem: handles deferring into the void
        for k in range(rng.randrange(0, 3)):
            ops1.append({"op": "defer", "via": "deferrer", "item": {"id": 900 + k, "ops": []}})
    second = FAMILIES[rng.choice(["a", "q"])](rng, name, props)
    ops2 = _remap(second["ops"], 1000)
    return {"case": name, "props": props, "acyclic": False, "ops": ops1 + [{"op": "restakker"}] + ops2}


def gen_deep_case(rng, name, props):
    """Long chains of closures each submitting the next one while it runs
    (hundreds of generations within one run), next to ordinary traffic."""
    ops = []
    now = [0, 0]
    nid = 1
    for _ in range(rng.randrange(1, 3)):
        n = rng.choice([95, 99, 100, 101, 120, 150, 205, 260])
        ops.append({"op": "chain", "n": n, "id0": nid, "via": rng.choice(["core", "deferrer", "mix"]),
                    "q": rng.choice(["defer", "defer", "mix", "lazy"])})
        nid += n
        for _ in range(rng.randrange(0, 3)):
            ops.append({"op": rng.choice(["defer", "lazy", "idle"]), "item": {"id": nid, "shape": rng.randrange(0, 35), "ops": []}})
            nid += 1
        now = tadd(now, rng.choice([[0, 0], [1, 0], [61, 0]]))
        ops.append({"op": "run", "t": now, "idle": rng.random() < 0.5})
    if rng.random() < 0.4:
        ops.append({"op": "chain", "n": rng.choice([3, 120]), "id0": nid, "via": "core", "q": "defer"})
        ops.append({"op": "drop_stakker"})
    else:
        now = tadd(now, [61, 0])
        ops.append({"op": "run", "t": now, "idle": True})
    return {"case": name, "props": props, "acyclic": True, "ops": ops}


def gen_park_case(rng, name, props):
    """An application parks handles the runtime gave it in a thread-local of
    its own (created before the Stakker): they are dropped when the thread
    exits, after the runtime's thread-locals."""
    c = gen_actor_case(rng, name, props)
    ops = [o for o in c["ops"] if o.get("op") != "drop_stakker"]
    oids = [o["oid"] for o in ops if o.get("op") == "acreate" and o.get("oid")]
    cut = [i for i, o in enumerate(ops) if o.get("op") == "run"]
    if oids and cut:
        k = rng.choice(cut) + 1
        # (an owner that was consumed in the meantime makes the op a no-op)
        ops.insert(k, {"op": "park", "oid": rng.choice(oids)})
    return {"case": name, "props": props, "acyclic": False, "ops": ops}


FAMILIES = {
    "q": lambda rng, name, props: gen_queue_case(rng, name, props),
    "qbig": lambda rng, name, props: gen_queue_case(rng, name, props, big=True),
    "qgrow": gen_grow_case,
    "t": lambda rng, name, props: gen_timer_case(rng, name, props),
    "c19": lambda rng, name, props: gen_c19_case(rng, name, props),
    "a": lambda rng, name, props: gen_actor_case(rng, name, props),
    "alog": lambda rng, name, props: gen_actor_case(rng, name, props, logger=True),
    "re": lambda rng, name, props: gen_restakker_case(rng, name, props),
    "park": gen_park_case,
    "qdeep": gen_deep_case,
}


def _bodies(ops, acc):
    for o in ops:
        for k in ("item", "init"):
            it = o.get(k)
            if isinstance(it, dict) and isinstance(it.get("ops"), list):
                acc.append(it["ops"])
                _bodies(it["ops"], acc)
                for od in it.get("ondrop", []) or []:
                    pass
    return acc


def inject_boom(rng, case):
    """Make one closure / method of the case panic at a random point of its
    body; the harness catches the unwind outside run() and releases the rest."""
    bodies = _bodies(case["ops"], [])
    if not bodies:
        return case
    # prefer bodies that do something before they fail (what they submitted must survive the panic)
    busy = [x for x in bodies if len(x) >= 1]
    b = rng.choice(busy if busy and rng.random() < 0.8 else bodies)
    b.insert(len(b) if rng.random() < 0.6 else rng.randrange(0, len(b) + 1), {"op": "boom"})
    case["boom"] = True
    # half of the time the frame owning the Stakker is unwound too (Stakker dropped while panicking)
    case["unwind_stakker"] = rng.random() < 0.5
    return case


BOOM_RATE = {"q": 0.2, "qbig": 0.1, "qgrow": 0.12, "a": 0.08, "t": 0.04, "qdeep": 0.1}


def gen_cases(seed, plan, props):
    """plan: list of (family, count)."""
    out = []
    for fam, n in plan:
        rng = random.Random((seed * 1000003) ^ zlib.crc32(fam.encode()))
        rng2 = random.Random((seed * 7919) ^ zlib.crc32(fam.encode()))
        for i in range(n):
            c = FAMILIES[fam](rng, "%s-%d-%d" % (fam, seed, i), props)
            if rng2.random() < BOOM_RATE.get(fam, 0):
                c = inject_boom(rng2, c)
            if fam in ("q", "a", "qgrow", "t") and rng2.random() < 0.06:
                # somebody tries to create a second Stakker while this one is alive with work pending
                pos = [i for i, o in enumerate(c["ops"]) if o.get("op") == "run"]
                if pos:
                    c["ops"].insert(rng2.choice(pos), {"op": "dupstakker"})
            out.append(c)
    return out
