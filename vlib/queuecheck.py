"""C17: the flat queue is observationally identical to the boxed queue.
FlatQueue.tla model-checked (memory discipline + refinement of the sequence
queue) over the closure shapes the harness really pushes; TLC-generated push
sequences and random sequences run through both real queue implementations
side by side; traces validated by TLC (FlatTrace): storage figures must match
the model (else DRIFT) and both queues must behave identically (C17)."""
import json
import os
import random
import re
import subprocess

from . import common

ASSUME = [
    "closure shapes: the 198-member family of the harness (sizes 16..4200 bytes, alignments 8..128 as closure types) incl. every 8-byte step next to the 1/2/4 KiB growth boundaries",
    "allocator returns 16-aligned blocks (bases modulo 128 enumerated in the model; the observed base is bound in trace validation)",
    "trusted base: TLC, FlatQueue/FlatTrace specs, the queue_diff harness, rustc; 64-bit target",
]


def shapes_table(binary):
    r = subprocess.run([binary, "--shapes"], stdout=subprocess.PIPE, text=True, timeout=60)
    if r.returncode != 0:
        raise common.ToolError("queue_diff --shapes failed")
    return json.loads(r.stdout)


def req(size, align):
    a = ((8 + align - 1) // align) * align
    return ((a + size + 7) // 8) * 8


def pick_shapes(tab, tier):
    """(size, align) pairs for the TLC config: everything whose requirement is
    within a window of a growth boundary, plus a few small/odd ones."""
    chosen = {}
    win = 48 if tier == "quick" else 96
    for idx, size, align in tab:
        r = req(size, align)
        near = any(P - win <= r <= P + 16 for P in (1024, 2048, 4096))
        if near or idx in (0, 5, 6, 7):
            chosen.setdefault((size, align), idx)
    return chosen


def write_mc(chosen, tier):
    shapes = ", ".join("<<%d, %d>>" % k for k in sorted(chosen))
    mod = """---------------------------- MODULE _gen_MCFlat ----------------------------
EXTENDS FlatQueue, Json
GenShapes == {%s}
GenBases == {0, 16, 48, 96, 112}
GenFills == {29, 30, 31, 32, 61, 63}
Final == n = MaxPush
ExportInv == Final => PrintT(<<"QCASE", ToJson(hist)>>)
=============================================================================
""" % shapes
    open(os.path.join(common.SPECS, "_gen_MCFlat.tla"), "w").write(mod)
    cfg = """SPECIFICATION Spec
CONSTANTS
  Shapes <- GenShapes
  Bases <- GenBases
  MaxPush = %d
  Fills <- GenFills
INVARIANT MemoryOk RefinesSeq ReqIsUpperBound
VIEW ViewQ
CHECK_DEADLOCK FALSE
""" % (2 if tier == "quick" else 3)
    open(os.path.join(common.SPECS, "_gen_MCFlat.cfg"), "w").write(cfg)
    cfgx = cfg.replace("INVARIANT MemoryOk RefinesSeq ReqIsUpperBound", "INVARIANT MemoryOk RefinesSeq ExportInv").replace("VIEW ViewQ\n", "")
    open(os.path.join(common.SPECS, "_gen_MCFlatX.cfg"), "w").write(cfgx)


def hist_to_case(h, chosen, name, nest_rng):
    ops = []
    nid = 1
    for step in h:
        if step[0] == "push":
            size, align = step[1]
            ops.append(["push", chosen[(size, align)], nid, nest_rng.random() < 0.2])
            nid += 1
        elif step[0] == "fill":
            for _ in range(step[1]):
                ops.append(["push", 0, nid, False])
                nid += 1
        elif step[0] == "exec":
            ops.append(["exec"])
    return {"case": name, "ops": ops}


def exact_fit_case(rng, name, tab):
    """An over-aligned closure pushed when exactly 8 + size bytes remain in a
    fresh 1 KiB / grown buffer (no room for alignment padding)."""
    ops = []
    nid = 1
    over = [(i, sz, al) for (i, sz, al) in tab if al >= 16 and sz + 8 <= 900]
    small32 = [i for (i, sz, al) in tab if sz == 24 and al == 8][0]
    small40 = [i for (i, sz, al) in tab if sz == 32 and al == 8][0]
    for _ in range(rng.randrange(1, 4)):
        i, sz, al = rng.choice(over)
        target = 1024 - (8 + sz) - rng.choice([0, 0, 0, 8, 16])
        if target < 0 or target % 8:
            continue
        # target = 32a + 40b
        sol = None
        for bcount in range(0, 5):
            rem = target - 40 * bcount
            if rem >= 0 and rem % 32 == 0:
                sol = (rem // 32, bcount)
                break
        if sol is None:
            continue
        for _ in range(sol[0]):
            ops.append(["push", small32, nid, False])
            nid += 1
        for _ in range(sol[1]):
            ops.append(["push", small40, nid, False])
            nid += 1
        ops.append(["push", i, nid, False])
        nid += 1
        ops.append(["exec"])
        # the next round starts from an empty buffer of the same capacity
    return {"case": name, "ops": ops}


RESIDUES = [0, 8, 16, 24, 32, 48, 56, 64, 72, 80, 96, 112, 120]


def overalign_case(rng, name, tab):
    """An over-aligned closure whose worst-case space requirement sits at a
    power of two, pushed onto a small non-empty buffer: the new buffer has to
    be sized for the padding needed *there* (its base residue is chosen by
    the harness's allocator), not for the padding needed at the old position."""
    ops = []
    nid = 1
    big = [i for (i, sz, al) in tab if al >= 32 and sz >= 800]
    for _ in range(rng.randrange(1, 3)):
        for _ in range(rng.randrange(0, 3)):
            if rng.random() < 0.5:
                ops.append(["pushz", rng.choice([1, 16, 128])])
            else:
                ops.append(["push", rng.choice([0, 2, 8]), nid, False])
            nid += 1
        ops.append(["push", rng.choice(big), nid, False])
        nid += 1
        if rng.random() < 0.5:
            ops.append(["push", rng.choice(big), nid, False])
            nid += 1
        ops.append(["exec"])
        if rng.random() < 0.5:
            break
    return {"case": name, "ops": ops}


def rand_case(rng, name, nshapes):
    ops = []
    nid = 1
    for _ in range(rng.randrange(1, 5)):
        # residual fill level, then shapes around a boundary
        for _ in range(rng.choice([0, 1, 5, 28, 29, 30, 31, 32, 33, 60, 62, 63, 64, 126])):
            ops.append(["push", rng.choice([0, 0, 0, 2, 8]), nid, False])
            nid += 1
        for _ in range(rng.randrange(1, 4)):
            c = rng.random()
            if c < 0.6:
                ops.append(["push", rng.randrange(0, nshapes), nid, rng.random() < 0.25])
            elif c < 0.72:
                ops.append(["pushz", rng.choice([1, 1, 16, 128])])
            elif c < 0.85:
                ops.append(["pushbox", nid])
            else:
                ops.append(["isempty"])
            nid += 1
        c = rng.random()
        if c < 0.6:
            ops.append(["exec"])
            ops.append(["isempty"])
        elif c < 0.75:
            ops.append(["drop"])
            break
    return {"case": name, "ops": ops}


def run_queue_diff(binary, cases, tag):
    outdir = os.path.join(common.WORK, "queue")
    os.makedirs(outdir, exist_ok=True)
    cpath = os.path.join(outdir, tag + ".cases.ndjson")
    tpath = os.path.join(outdir, tag + ".trace.ndjson")
    with open(cpath, "w") as f:
        for c in cases:
            f.write(json.dumps(c, separators=(",", ":")) + "\n")
    lines = []
    start = 0
    guard = 0
    while start < len(cases):
        guard += 1
        if guard > len(cases) + 5:
            raise common.ToolError("queue_diff restart loop")
        r = subprocess.run([binary, cpath, "--from", str(start)], stdout=subprocess.PIPE, stderr=subprocess.PIPE, text=True, timeout=900)
        out = r.stdout.splitlines()
        if r.returncode == 0:
            lines += out
            break
        # crash inside one of the queues: keep complete lines, mark the case, continue after it
        last = start
        which = "flat"
        for ln in out:
            if ln.startswith('{"e":"qcase"'):
                last = json.loads(ln)["idx"]
            if ln.startswith('{"e":"qimpl"'):
                which = json.loads(ln)["which"]
        keep = [ln for ln in out if ln.startswith("{") and ln.endswith("}")]
        lines += keep
        msg = ("exit %d " % r.returncode) + (r.stderr.strip().splitlines()[-1] if r.stderr.strip() else "")
        lines.append(json.dumps({"e": "qcrash", "which": which, "msg": msg.replace('"', "'")[:200]}))
        lines.append('{"e":"qcaseend"}')
        start = last + 1
    with open(tpath, "w") as f:
        f.write("\n".join(lines) + "\n")
    return tpath, lines


def run(prop, tier, seed, replay=None):
    binary = common.build_harness(bin_name="queue_diff")
    tab = shapes_table(binary)
    viols = []
    states = trans = 0
    cases = []
    specs = []
    if replay:
        cases = [json.load(open(replay))["case"]]
    else:
        chosen = pick_shapes(tab, tier)
        write_mc(chosen, tier)
        rc, out = common.tlc("_gen_MCFlat.tla", "_gen_MCFlat.cfg", "flat-mc", workers=8, javaopts="-Xss1g", timeout=3000)
        st, tr = common.tlc_stats(out)
        states += st
        trans += tr
        specs.append("FlatQueue (%d shapes)" % len(chosen))
        if "is violated" in out or "Error:" in out:
            p = os.path.join(common.REPLAYS, "C17-flatqueue-mc.tlc.txt")
            common.ensure_dirs()
            open(p, "w").write(out[-200000:])
            viols.append({"why": "FlatQueue.tla violates its memory/refinement invariants", "replay": p, "sig": "tlc"})
        elif "Model checking completed. No error has been found." not in out:
            raise common.ToolError("TLC did not complete on FlatQueue:\n" + out[-3000:])
        else:
            nsim = 40 if tier == "quick" else 600
            rc, out = common.tlc("_gen_MCFlat.tla", "_gen_MCFlatX.cfg", "flat-sim", workers=1, javaopts="-Xss1g", timeout=3000,
                                 extra=["-simulate", "num=%d" % nsim, "-depth", "12", "-seed", str(seed)])
            seen = set()
            rng = random.Random(seed)
            for m in re.finditer(r'<<"QCASE", "(.*)">>', out):
                raw = m.group(1).encode().decode("unicode_escape")
                if raw in seen:
                    continue
                seen.add(raw)
                cases.append(hist_to_case(json.loads(raw), chosen, "flatmc-%d" % len(cases), rng))
            cap = 1500 if tier == "quick" else 30000
            if len(cases) > cap:
                rng.shuffle(cases)
                cases = cases[:cap]
        rng = random.Random(seed * 31 + 7)
        for i in range(300 if tier == "quick" else 6000):
            if i % 3 == 0:
                cases.append(exact_fit_case(rng, "qfit-%d-%d" % (seed, i), tab))
            else:
                cases.append(rand_case(rng, "qrand-%d-%d" % (seed, i), len(tab)))
        for i in range(200 if tier == "quick" else 4000):
            cases.append(overalign_case(rng, "qover-%d-%d" % (seed, i), tab))
        # where the buffers of each case land modulo 128 (the harness's allocator obeys)
        for c in cases:
            c["bases"] = [rng.choice(RESIDUES) for _ in range(rng.randrange(1, 5))]
    tag = "C17-%s-%d" % (tier, seed)
    tpath, lines = run_queue_diff(binary, cases, tag)
    rc, out = common.tlc("FlatTrace.tla", "FlatTrace.cfg", "flat-trace", env={"TRACE": tpath}, workers=1, heap="6g")
    m = re.search(r'<<"VERDICT", "(.*)">>', out)
    if not m or "Model checking completed. No error has been found." not in out:
        raise common.ToolError("queue trace validation did not complete:\n" + out[-3000:])
    verdict = json.loads(m.group(1).encode().decode("unicode_escape"))
    nv = 0
    for v in verdict["violations"]:
        if v["prop"] != prop:
            continue
        idx = None
        for ln in lines[:v["line"]]:
            if ln.startswith('{"e":"qcase"'):
                idx = json.loads(ln)["idx"]
        case = cases[idx] if idx is not None else {}
        common.ensure_dirs()
        path = os.path.join(common.REPLAYS, "%s-q-s%d-%d.json" % (prop, seed, nv))
        json.dump({"property": prop, "why": v["why"], "case": case, "trace_excerpt": lines[max(0, v["line"] - 30):v["line"] + 1]}, open(path, "w"))
        viols.append({"why": v["why"], "replay": path, "sig": "queue"})
        nv += 1
    samples = [cases[i] for i in range(0, len(cases), max(1, len(cases) // 3))][:3]
    coverage = {
        "states": states, "transitions": trans,
        "traces_validated_against_impl": len(cases),
        "samples": samples,
        "evaluations": len(cases),
        "distinct_nontrivial": len({json.dumps(c["ops"]) for c in cases if len(c["ops"]) >= 2}),
        "rule": "cases = push/fill/exec sequences exported by TLC from FlatQueue.tla over the near-boundary closure shapes + random sequences from residual fill levels; each run through the real flat.rs and boxed.rs; distinct by op list",
        "trace_records": len(lines),
        "drift_count": verdict.get("ndrift", 0),
        "tlc_specs": specs,
        "exhaustive": False,
        "explanation": "FlatQueue.tla: every push sequence within MaxPush over the selected shapes x base alignments x fill steps satisfies MemoryOk (in bounds, disjoint, aligned, drain walk = push walk), refines the sequence queue, and Req is an upper bound; the real flat queue's (base,len,cap) after every push matched the model in trace validation and its observable behaviour equalled the boxed queue's",
    }
    return {"level": "model_checking", "coverage": coverage, "violations": viols, "assumptions": ASSUME,
            "summary": "%d TLC states, %d cases, %d records, %d drift" % (states, len(cases), len(lines), verdict.get("ndrift", 0))}
