"""Behaviours exported by TLC from Sync.tla -> concdrv cases; comparison of the
spec's predicted low-level / high-level records with the recorded ones."""
import json
import re


def parse(tlc_out):
    out, seen = [], set()
    for m in re.finditer(r'<<"SCASE", "(.*)">>', tlc_out):
        raw = m.group(1).encode().decode("unicode_escape")
        if raw in seen:
            continue
        seen.add(raw)
        out.append(json.loads(raw))
    return out


def _seq(x):
    if isinstance(x, list):
        return x
    if isinstance(x, dict):
        return [x[k] for k in sorted(x, key=lambda z: int(z))]
    return []


def _ops(script, piped_worker=False):
    res = []
    for o in _seq(script):
        o = list(o)
        if piped_worker and o[0] == "lsend":
            o[0] = "send"
        res.append(o)
    return res


def build_case(b, name):
    kind = b["kind"]
    scripts = b["scripts"]
    tids = sorted(scripts, key=lambda z: int(z)) if isinstance(scripts, dict) else list(range(1, len(scripts) + 1))
    threads = []
    for t in tids:
        sc = scripts[t] if isinstance(scripts, dict) else scripts[t - 1]
        threads.append(_ops(sc, piped_worker=(kind == "piped")))
    wl = [int(x) for x in _seq(b.get("wakers", []))]
    fillers = 0
    ctl = False
    if kind != "waker":
        # WakerBits = (1 :> bit): `bit - 1` filler wakers come first (slot `base` is skipped by the runtime)
        bit = int(b.get("chanbit", 1))
        ctl = 7 in wl
        plain = [w for w in wl if w not in (1, 7)]
        fillers = 0 if (ctl or plain) else bit - 1 - (bit // 4096)
        wl = plain
    hprog = {}
    hp = b.get("hprog")
    if isinstance(hp, list):
        # a function over 1..n is printed as a sequence
        hp = {str(i + 1): pr for i, pr in enumerate(hp)}
    if isinstance(hp, dict):
        for w, pr in hp.items():
            hprog[str(int(w))] = {"wake": [list(a) for a in _seq(pr.get("wake", []))],
                                  "final": [list(a) for a in _seq(pr.get("final", []))]}
    return {"case": name, "kind": kind, "props": [], "wakers": wl, "threads": threads, "fillers": fillers, "hprog": hprog, "cecho": bool(b.get("cecho", False)), "gdf": bool(b.get("gdf", False)),
            "main": _ops(b["main"]), "schedule": [int(x) for x in _seq(b["sched"])], "seed": 1, "fallback": "rr",
            "autodrop": False, "ctl": ctl,
            "pred_lo": _seq(b["lo"]), "pred_hi": _seq(b["hi"])}


def bits(hexstr):
    v = int(hexstr, 16)
    return [i for i in range(64) if (v >> i) & 1]


def proj_lo_actual(e):
    k = e.get("k")
    if k == "at":
        return [e["t"], "at", e["op"], bits(e["arg"]), bits(e["old"]), e["ord"]]
    if k in ("lock", "unlock", "cvwait", "cvwake", "begin", "end"):
        return [e["t"], k]
    if k == "notify":
        return [e["t"], "notify", e["woke"]]
    if k == "trylock":
        return [e["t"], "trylock", e["got"]]
    return None


def proj_lo_pred(e):
    k = e.get("k")
    if k == "at":
        return [e["t"], "at", e["op"], sorted(e["arg"]), sorted(e["old"]), e["ord"]]
    if k in ("lock", "unlock", "cvwait", "cvwake", "begin", "end"):
        return [e["t"], k]
    if k == "notify":
        return [e["t"], "notify", e["woke"]]
    return None


HI_KEYS = {
    "wake_begin": ["w"], "wake_end": ["w"], "wdrop_begin": ["w"], "wdrop_end": ["w"], "wcreate": ["w"],
    "handler": ["w", "deleted"], "pollwaker": [], "pollcheck": ["notified"], "poll_begin": [], "poll_end": [],
    "joined": [], "quiesce": [], "send_begin": ["v"], "send_end": ["v", "res"], "isclosed": ["res"], "isclosed_begin": [],
    "guard_drop_begin": [], "guard_drop_end": [], "fwd": ["v"], "psend_begin": ["v"], "psend_end": ["v"],
    "pdrop_begin": [], "pdrop_end": [], "recv_begin": [], "recv_end": ["has", "v"], "lsend_begin": ["v"],
    "lsend_end": ["v", "res"], "cancelq": ["res"], "wreturn": [], "wpanic": ["msg"], "precv": ["v"],
    "pterm": ["panic", "msg"],
}


def proj_hi(e):
    k = e.get("e")
    if k not in HI_KEYS:
        return None
    return [e.get("t"), k] + [e.get(f) for f in HI_KEYS[k]]


def compare(case, events):
    """events: the harness records of this case (dicts) from 'armed' to 'quiesce'."""
    lo_a, hi_a = [], []
    armed = False
    for e in events:
        if e.get("e") == "armed":
            armed = True
            continue
        if not armed:
            continue
        if "k" in e:
            x = proj_lo_actual(e)
            if x is not None:
                lo_a.append(x)
        elif "e" in e:
            x = proj_hi(e)
            if x is not None:
                hi_a.append(x)
            if e.get("e") == "quiesce":
                break
    lo_p = [x for x in (proj_lo_pred(e) for e in case["pred_lo"]) if x is not None]
    hi_p = [x for x in (proj_hi(e) for e in case["pred_hi"]) if x is not None]
    # the harness records thread-begin of workers spawned inside stakker etc. identically
    for name, p, a in (("lo", lo_p, lo_a), ("hi", hi_p, hi_a)):
        for i, x in enumerate(p):
            if i >= len(a):
                return {"stream": name, "at": i, "spec": x, "code": None}
            if json.dumps(x) != json.dumps(a[i]):
                return {"stream": name, "at": i, "spec": x, "code": a[i]}
        if name == "hi" and len(a) > len(p):
            return {"stream": name, "at": len(p), "spec": None, "code": a[len(p)]}
    return None
