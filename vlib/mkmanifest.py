#!/usr/bin/env python3
"""Regenerate /verif/MANIFEST.json from the table below."""
import json
import os
import subprocess

V = os.path.dirname(os.path.dirname(os.path.abspath(__file__)))
props = [json.loads(l) for l in open(os.path.join(V, "properties.jsonl"))]

SEQ_NOTE = ("Assumes: small-scope bounds of the TLC configs (A1); no wrap of timer sequence numbers / slot generations (A2); "
            "64-bit target. Trusted base: TLC, the SeqAbs monitor spec, the seqdrv interpreter, rustc.")

CLAIMS = {
    "C01": ("Core.tla (run loop design spec) model-checked against the SeqAbs monitor for all closure trees within the config budget; "
            "every exported behaviour plus seeded random programs (re-entrant submission, drop handlers, 80 capture shapes incl. growth-boundary sizes, "
            "queue recreation, Stakker drop) executed on the real code and the recorded trace validated by TLC against SeqAbs", "5 C01"),
    "C02": ("Core.tla (actor lifecycle design spec: inner state + packed state copy, held-call queue, flush on Ready) model-checked against SeqAbs; "
            "exported behaviours and random actor programs replayed on the real code, traces validated by TLC", "5 C02"),
    "C03": ("Core.tla termination (to_zombie / notify / value drop, first cause wins) model-checked against SeqAbs for all multisets of stop/fail/kill/owner-drop within budget; "
            "replayed and trace-validated on the real code incl. is_zombie() after every run", "5 C03"),
    "C04": ("Core.tla owner counts / deferred terminate(Dropped) / value-held owners model-checked against SeqAbs; replay + trace validation incl. slabs (also built while the parent is in Prep) and slab.len() after every run", "5 C04"),
    "C05": ("Core.tla Ret objects (plain, ret_to, ret_some_to) travelling through messages, held queues, timers and Stakker drop model-checked against SeqAbs; replay + trace validation", "5 C05"),
    "C06": ("Core.tla run loop (idle pop, swap, main-until-empty, lazy batch, return value) model-checked against SeqAbs; replay + trace validation", "5 C06"),
    "C07": ("Timers.tla (timers/mod.rs at the real constants, pair arithmetic) model-checked against SeqAbs + WindowInv + SlotInv over boundary instants; "
            "exported behaviours replayed with exact next_expiry predictions, random histories trace-validated", "5 C07"),
    "C08": ("as C07; MustFire bound and no-panic checked on every run; the model with ClampModMin=FALSE reproduces finding F1", "5 C08"),
    "C09": ("as C07; next_expiry emitted after every operation of every behaviour and bounded by the monitor; next_wait/next_wait_max and the follow-next_expiry loop in random histories", "5 C09"),
    "C10": ("as C07; every key ever issued (and Default keys) re-used after slot recycling; results compared with pending status", "5 C10"),
    "C15": ("Core.tla + random programs: now() observed by every executed item, non-monotone run instants, start_instant; trace-validated", "5 C15"),
    "C16": ("Release part of the SeqAbs monitor: every token (closure captures, messages, actor values, Rets) dropped exactly once, none left when the Stakker and all references are gone, "
            "captured data integrity/alignment; over Core.tla behaviours and random programs. PARTIAL: memory errors invisible in these observables are not decided (DESIGN 5 C16)", "5 C16"),
    "C19": ("Timers.tla fired order + Core.tla 'timers after queued calls' model-checked against SeqAbs; dedicated close-deadline generator; trace-validated", "5 C19"),
    "C20": ("SeqAbs Open/Close/filter monitor over actor programs on a logger build, all filter shapes; trace-validated", "5 C20"),
}

NOT_YET = {
    "C11": "check under construction (Waker spec + deterministic scheduler)",
    "C12": "check under construction (Waker spec + deterministic scheduler)",
    "C13": "check under construction (Channel spec + deterministic scheduler)",
    "C14": "check under construction (PipedThread spec + deterministic scheduler)",
    "C17": "check under construction (FlatQueue spec + side-by-side harness)",
    "C18": "check under construction (feature-build matrix)",
}

def main():
    extra = {}
    xp = os.path.join(V, "vlib", "manifest_extra.json")
    if os.path.exists(xp):
        extra = json.load(open(xp))
    claims = dict(CLAIMS)
    claims.update({k: tuple(v) for k, v in extra.get("claims", {}).items()})
    notyet = {k: v for k, v in NOT_YET.items() if k not in claims}
    hooks_commits = extra.get("hook_commits", [])
    checks = []
    for p in props:
        pid = p["id"]
        if pid not in claims:
            continue
        text, ref = claims[pid]
        checks.append({
            "property_id": pid,
            "quick_cmd": "./check %s quick" % pid,
            "thorough_cmd": "./check %s thorough" % pid,
            "evidence_file": "evidence/%s.json" % pid,
            "replay_cmd_template": "./check %s quick --replay {path}" % pid,
            "engine": extra.get("engine", {}).get(pid, "tla-seq"),
            "level_claimed": {"category": "model_checking", "text": text, "design_ref": "DESIGN.md section " + ref},
            "level_note": extra.get("notes", {}).get(pid, SEQ_NOTE),
            "technique": extra.get("technique", {}).get(pid, "TLA+ design spec model-checked with TLC against an abstract monitor spec; spec-generated behaviours replayed on the code; recorded traces validated against the spec by TLC"),
        })
    m = {
        "version": 1,
        "setup_cmd": "./setup.sh",
        "hooks": {
            "guard": "uazu-stakker-verif",
            "enable": "cargo feature uazu-stakker-verif of the stakker crate, enabled by the harness crate's default feature `verif` (/verif/harness/Cargo.toml); checks build /repo through that path dependency",
            "baseline_off_cmd": "cd /repo && cargo test --workspace --no-fail-fast --offline",
            "source_commits": hooks_commits,
            "add_only": True,
        },
        "engines": [
            {"name": "tla-seq", "path": "specs/SeqAbs.tla specs/Core.tla specs/Timers.tla specs/SeqTrace.tla harness/src/bin/seqdrv.rs vlib/",
             "serves_properties": [c for c in claims if c not in ("C11", "C12", "C13", "C14", "C17")],
             "kind_free_text": "TLA+ specifications checked with TLC; spec->impl replay and impl->spec trace validation through a JSON-program interpreter over the real crate"},
        ] + extra.get("engines", []),
        "checks": checks,
        "notes": "See DESIGN.md. known-findings.txt lists the three genuine defects found, all repaired in /repo: 'fix: clamp Min timer re-queue time ...' (C08, f7545dd), 'fix: stop forwarding a channel batch once the ChannelGuard has been dropped' (C13, 1acbc20) and 'fix: drop what a previous Stakker's leftovers defer while Core::new discards them' (C01/C18, 873236a).",
        "not_applicable": [{"property_id": k, "reason": v} for k, v in sorted(notyet.items())],
    }
    json.dump(m, open(os.path.join(V, "MANIFEST.json"), "w"), indent=1)
    print("claimed:", sorted(claims), "not yet:", sorted(notyet))

main()
