"""TLC model checking of the design specs and export of their behaviours."""
import json
import os
import re

from . import common, coreexport


def _tlc_mc(spec, cfg, tag, workers=8, timeout=3000):
    rc, out = common.tlc(spec, cfg, tag, workers=workers, javaopts="-Xss1g", timeout=timeout)
    states, trans = common.tlc_stats(out)
    bad = None
    if "is violated" in out or "Error:" in out:
        bad = out
    elif "Model checking completed. No error has been found." not in out:
        raise common.ToolError("TLC did not complete on %s/%s:\n%s" % (spec, cfg, out[-3000:]))
    return states, trans, bad, out


def _tlc_sim(spec, cfg, tag, num, depth, seed, timeout=3000):
    rc, out = common.tlc(spec, cfg, tag, workers=1, javaopts="-Xss1g", timeout=timeout,
                         extra=["-simulate", "num=%d" % num, "-depth", str(depth), "-seed", str(seed)])
    m = re.search(r"The number of states generated: (\d+)", out)
    n = int(m.group(1)) if m else 0
    bad = out if ("is violated" in out or "Error:" in out) else None
    if bad is None and m is None:
        raise common.ToolError("TLC simulation did not complete on %s/%s:\n%s" % (spec, cfg, out[-3000:]))
    return n, bad, out


def _save(tag, text):
    common.ensure_dirs()
    p = os.path.join(common.REPLAYS, tag + ".tlc.txt")
    with open(p, "w") as f:
        f.write(text[-200000:])
    return p


CORE_CFG = {
    # kind: (quick exhaustive, thorough exhaustive, simulation cfg, quick nsim, thorough nsim, depth)
    "q": ("MCCoreQ_quick.cfg", "MCCoreQ.cfg", "MCCoreQ_sim.cfg", 500, 6000, 70),
    "a": ("MCCoreA.cfg", "MCCoreA_deep.cfg", "MCCoreA_sim.cfg", 500, 6000, 90),
    "l": ("MCCoreL_open.cfg", "MCCoreL_open.cfg", "MCCoreL_sim.cfg", 300, 3000, 90),
    "l2": ("MCCoreL_warn.cfg", "MCCoreL_warn.cfg", "MCCoreL2_sim.cfg", 300, 3000, 90),
}


def run_core(kind, prop, tier, seed):
    qc, tc, sc, qn, tn, depth = CORE_CFG[kind]
    out = {"states": 0, "transitions": 0, "cases": [], "violations": [], "specs": ["Core/" + (qc if tier == "quick" else tc), "Core/" + sc]}
    st, tr, bad, text = _tlc_mc("MCCore.tla", qc if tier == "quick" else tc, "core-%s-%s" % (kind, prop))
    out["states"] += st
    out["transitions"] += tr
    if bad:
        out["violations"].append({"why": "design spec Core (%s) violates the abstract monitor: see TLC counterexample" % kind,
                                  "replay": _save("%s-core-%s-mc" % (prop, kind), text), "sig": "tlc"})
        return out
    n, bad, text = _tlc_sim("MCCore.tla", sc, "coresim-%s-%s" % (kind, prop), qn if tier == "quick" else tn, depth, seed)
    out["states"] += n
    out["transitions"] += n
    if bad:
        out["violations"].append({"why": "design spec Core (%s, simulation) violates the abstract monitor" % kind,
                                  "replay": _save("%s-core-%s-sim" % (prop, kind), text), "sig": "tlc"})
        return out
    behs = coreexport.parse_cases(text)
    for i, b in enumerate(behs):
        out["cases"].append(coreexport.build_case(b, "core%s-%d" % (kind, i), shape_seed=seed))
    return out


TIMER_CFG = ("MCTimers_quick.cfg", "MCTimers_quick.cfg", "MCTimers_sim.cfg", 60, 600, 12)


def run_timers(prop, tier, seed, cap=None, kcap=None):
    import random
    qc, tc, sc, qn, tn, depth = TIMER_CFG
    out = {"states": 0, "transitions": 0, "cases": [], "violations": [], "specs": ["Timers/" + (qc if tier == "quick" else tc), "Timers/" + sc]}
    mcs = [qc] if tier == "quick" else [qc, "MCTimers_deepF.cfg", "MCTimers_deepX.cfg", "MCTimers_deepN.cfg"]
    for mcfg in mcs:
        st, tr, bad, text = _tlc_mc("MCTimers.tla", mcfg, "tm-%s" % prop)
        out["states"] += st
        out["transitions"] += tr
        if mcfg != qc:
            out["specs"].append("Timers/" + mcfg)
        if bad:
            out["violations"].append({"why": "design spec Timers (%s) violates the abstract monitor / its structural invariants: see TLC counterexample" % mcfg,
                                      "replay": _save("%s-timers-mc" % prop, text), "sig": "tlc"})
            return out
    n, bad, text = _tlc_sim("MCTimers.tla", sc, "tmsim-%s" % prop, qn if tier == "quick" else tn, depth, seed)
    out["states"] += n
    out["transitions"] += n
    if bad:
        out["violations"].append({"why": "design spec Timers (simulation) violates the abstract monitor / its structural invariants",
                                  "replay": _save("%s-timers-sim" % prop, text), "sig": "tlc"})
        return out
    behs = coreexport.parse_cases(text, "TCASE")
    cap = cap or (1200 if tier == "quick" else 40000)
    if len(behs) > cap:
        random.Random(seed).shuffle(behs)
        behs = behs[:cap]
    # key-reuse focused configurations: exhaustive, every final state exported
    focus = {
        "C07": ("long", "sub", "keysv", "long2", "minupd"),
        "C08": ("long", "long2", "keysv", "sub", "minupd", "mindel"),
        "C09": ("r75", "long", "sub", "keysv", "minupd", "mindel"),
        "C10": ("keysf", "keysv", "long", "wrap0", "tie", "mindel"),
        "C19": ("near", "past", "keysf", "same"),
    }.get(prop, ("keysf", "keysv", "long", "near", "sub", "long2", "r75", "past", "minupd", "same", "wrap0", "tie", "mindel"))
    for kc in ["MCTimers_%s.cfg" % f for f in focus]:
        st, tr, bad, text = _tlc_mc("MCTimers.tla", kc, "tmk-%s" % prop)
        out["states"] += st
        out["transitions"] += tr
        out["specs"].append("Timers/" + kc)
        if bad and "TCASE" not in bad.split("Error")[1][:200]:
            out["violations"].append({"why": "design spec Timers (%s) violates the abstract monitor" % kc,
                                      "replay": _save("%s-timers-%s" % (prop, kc), text), "sig": "tlc"})
            return out
        kb = coreexport.parse_cases(text, "TCASE")
        kc_ = kcap or (6000 if tier == "quick" else 100000)
        if len(kb) > kc_:
            random.Random(seed + 1).shuffle(kb)
            kb = kb[:kc_]
        behs += kb
    for i, b in enumerate(behs):
        out["cases"].append(coreexport.build_timer_case(b, "tm-%d" % i))
    return out


def run_core_focus(cfg, prop, tier, seed, cap=None):
    """Focused exhaustive Core configuration whose every final state is exported."""
    import random
    out = {"states": 0, "transitions": 0, "cases": [], "violations": [], "specs": ["Core/" + cfg]}
    st, tr, bad, text = _tlc_mc("MCCore.tla", cfg, "coref-%s-%s" % (cfg, prop))
    out["states"] += st
    out["transitions"] += tr
    if bad and "is violated" in bad:
        out["violations"].append({"why": "design spec Core (%s) violates the abstract monitor" % cfg,
                                  "replay": _save("%s-core-%s" % (prop, cfg), text), "sig": "tlc"})
        return out
    behs = coreexport.parse_cases(text)
    cap = cap or (3000 if tier == "quick" else 100000)
    if len(behs) > cap:
        random.Random(seed).shuffle(behs)
        behs = behs[:cap]
    for i, b in enumerate(behs):
        out["cases"].append(coreexport.build_case(b, "%s-%d" % (cfg.replace(".cfg", ""), i), shape_seed=seed))
    return out


# property -> list of runners
SPECS = {
    "C07": [lambda p, t, s: run_timers(p, t, s)],
    "C08": [lambda p, t, s: run_timers(p, t, s)],
    "C09": [lambda p, t, s: run_timers(p, t, s)],
    "C10": [lambda p, t, s: run_timers(p, t, s)],
    "C19": [lambda p, t, s: run_timers(p, t, s, cap=800), lambda p, t, s: run_core("q", p, t, s)],
    "C01": [lambda p, t, s: run_core("q", p, t, s), lambda p, t, s: run_core_focus("MCCoreD.cfg", p, t, s, cap=2000)],
    "C06": [lambda p, t, s: run_core("q", p, t, s)],
    "C15": [lambda p, t, s: run_core("q", p, t, s)],
    "C02": [lambda p, t, s: run_core("a", p, t, s), lambda p, t, s: run_core_focus("MCCoreY.cfg", p, t, s, cap=(3000 if t == "quick" else 100000)),
            lambda p, t, s: run_core_focus("MCCoreF.cfg", p, t, s, cap=(2500 if t == "quick" else 100000)),
            lambda p, t, s: run_core_focus("MCCoreR.cfg", p, t, s, cap=(1500 if t == "quick" else 100000))],
    "C03": [lambda p, t, s: run_core("a", p, t, s), lambda p, t, s: run_core_focus("MCCoreK.cfg", p, t, s, cap=(2500 if t == "quick" else 100000)), lambda p, t, s: run_core_focus("MCCoreY.cfg", p, t, s, cap=(3000 if t == "quick" else 100000))],
    "C04": [lambda p, t, s: run_core("a", p, t, s), lambda p, t, s: run_core_focus("MCCoreO.cfg", p, t, s),
            lambda p, t, s: run_core_focus("MCCoreS.cfg", p, t, s, cap=(3000 if t == "quick" else 100000)),
            lambda p, t, s: run_core_focus("MCCoreP.cfg", p, t, s, cap=(2500 if t == "quick" else 100000))],
    "C05": [lambda p, t, s: run_core("a", p, t, s), lambda p, t, s: run_core_focus("MCCoreR.cfg", p, t, s, cap=(3000 if t == "quick" else 100000))],
    "C16": [lambda p, t, s: run_core("a", p, t, s), lambda p, t, s: run_core("q", p, t, s),
            lambda p, t, s: run_core_focus("MCCoreO.cfg", p, t, s, cap=1500)],
    "C20": [lambda p, t, s: run_core("l", p, t, s), lambda p, t, s: run_core("l2", p, t, s)],
}


def run_for(prop, tier, seed):
    out = {"states": 0, "transitions": 0, "cases": [], "specs": [], "violations": []}
    for runner in SPECS.get(prop, []):
        r = runner(prop, tier, seed)
        out["states"] += r["states"]
        out["transitions"] += r["transitions"]
        out["cases"] += r["cases"]
        out["violations"] += r["violations"]
        out["specs"] += r["specs"]
    return out


def compare_predictions(cases, tpath):
    """Compare each spec-generated case's predicted event stream with what the
    code did.  Returns a list of drift records."""
    per = {}
    cur = None
    with open(tpath) as f:
        for ln in f:
            try:
                e = json.loads(ln)
            except Exception:
                continue
            if e.get("e") == "case":
                cur = e["idx"]
                per[cur] = []
                continue
            if e.get("e") == "new" or cur is None:
                continue
            per[cur].append(e)
    drift = []
    for i, c in enumerate(cases):
        pred = c.get("pred")
        if pred is None:
            continue
        r = coreexport.compare(pred, per.get(i, []))
        if r:
            r["case"] = c["case"]
            drift.append(r)
    return drift
