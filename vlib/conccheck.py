"""Checks for the inter-thread properties C11-C14: TLC model checking of
Sync.tla over all interleavings of small thread scripts, replay of TLC's
schedules on the real code under the deterministic scheduler, validation of
the recorded high-level traces against ConcAbs, comparison of the low-level
records with the spec's predictions, and a re-check of the model under the
memory orderings the code was observed to pass."""
import json
import os
import random
import subprocess
import time

from . import common, syncexport

# (name, kind, wakers, scripts, main)
CONFIGS = {
    "C11": {
        "quick": [("w_same", "waker", "WB_same", "S_w2", "M_p2"),
                  ("w_words", "waker", "WB_words", "S_w2b", "M_p1"),
                  ("w_bms", "waker", "WB_bms", "S_w2c", "M_p1"),
                  ("w_two", "waker", "WB_two", "S_w2d", "M_p1"),
                  ("hwake", "waker", "WB_three", "S_h2", "M_p2", "HP_hwake"),
                  ("hnest", "waker", "WB_three", "S_h3", "M_p1", "HP_nested")],
        "thorough": [("w_three", "waker", "WB_three", "S_w3", "M_p2"),
                     ("w_same3", "waker", "WB_same", "S_w2", "M_p3")],
    },
    "C12": {
        "quick": [("wd", "waker", "WB_same", "S_wd", "M_p2"),
                  ("wd2", "waker", "WB_same", "S_wd2", "M_p1"),
                  ("wrec", "waker", "WB_same", "S_wd2", "M_recycle"),
                  ("wrec2", "waker", "WB_two", "S_wr2", "M_recycle2"),
                  ("wd_bms", "waker", "WB_bms", "S_wd3", "M_p2"),
                  ("hfin", "waker", "WB_three", "S_h1", "M_p2", "HP_findrop"),
                  ("hself", "waker", "WB_three", "S_h1", "M_h2", "HP_selfdrop"),
                  ("hnest", "waker", "WB_three", "S_h3", "M_p1", "HP_nested")],
        "thorough": [("w_three", "waker", "WB_three", "S_w3", "M_p2")],
    },
    "C13": {
        "quick": [("c1", "channel", "NoWakers", "S_c1", "M_c1"),
                  ("c2g", "channel", "NoWakers", "S_c2", "M_cg"),
                  ("c1g2", "channel", "NoWakers", "S_c1", "M_cg2"),
                  ("c1far", "channel", "WB_far", "S_c1", "M_c1"),
                  ("cctl", "channel", "WB_ctl", "S_ctl", "M_c1"),
                  ("cext", "channel", "WB_ext", "S_ext", "M_c1"),
                  ("cecho", "channel", "NoWakers", "S_c2", "M_cg", "CECHO"),
                  ("gdf", "channel", "NoWakers", "S_c2", "M_c1", "GDF")],
        "thorough": [("c3g", "channel", "NoWakers", "S_c3", "M_cg"),
                     ("c2", "channel", "NoWakers", "S_c2", "M_c1")],
    },
    "C14": {
        "quick": [("p1", "piped", "NoWakers", "S_p1", "M_pp1"),
                  ("p3", "piped", "NoWakers", "S_p3", "M_pp2"),
                  ("p2", "piped", "NoWakers", "S_p2", "M_pp3"),
                  ("p1far", "piped", "WB_far", "S_p3", "M_pp2"),
                  ("p6", "piped", "NoWakers", "S_p6", "M_pp4")],
        "thorough": [("p4", "piped", "NoWakers", "S_p4", "M_pp1"),
                     ("p5", "piped", "NoWakers", "S_p5", "M_pp3")],
    },
}

# Which design of the channel's wake handler the tree has: one look at the closed flag per batch (the
# pinned tree, finding F2) or one per message (the repaired tree).  Sync.tla follows it (constant ChanRecheck).
CHAN_RECHECK = True

ASSUME = [
    "A1 small scope: 2-3 threads, scripts of 1-4 operations; all interleavings of those are explored by TLC",
    "A4 the deterministic scheduler serialises threads; data races on non-atomic memory are judged in the model (views), not observed",
    "A5 weak-memory behaviours of the atomics are explored as SC interleavings + release/acquire visibility (orderings read from the code's trace)",
    "trusted base: TLC, ConcAbs/Sync specs, the concdrv scheduler, the verif_std shim (pass-through wrappers), rustc; 64-bit target",
]


def write_cfg(name, kind, wb, sc, ms, ordset, orddrain, export, hp="NoHProg"):
    path = os.path.join(common.SPECS, "_gen_%s.cfg" % name)
    inv = "NoViolation Published NoDeadlock NoPanic" + (" ExportInv" if export else "")
    with open(path, "w") as f:
        cecho = "TRUE" if hp == "CECHO" else "FALSE"
        gdf = "TRUE" if hp == "GDF" else "FALSE"
        hpn = "NoHProg" if hp in ("CECHO", "GDF") else hp
        f.write("SPECIFICATION Spec\nCONSTANTS\n  Kind = \"%s\"\n  WakerBits <- %s\n  Scripts <- %s\n  MainScript <- %s\n  HProg <- %s\n  CEcho = %s\n"
                "  GDF = %s\n  ChanRecheck = %s\n"
                "  OrdSet = \"%s\"\n  OrdDrain = \"%s\"\nINVARIANT %s\n%sCHECK_DEADLOCK FALSE\n"
                % (kind, wb, sc, ms, hpn, cecho, gdf, "TRUE" if CHAN_RECHECK else "FALSE", ordset, orddrain, inv, "" if export else "VIEW View\n"))
    return os.path.basename(path)


def _cfg5(t):
    """(name, kind, wakers, scripts, main[, hprog]) -> 6-tuple"""
    return tuple(t) + (("NoHProg",) if len(t) == 5 else ())


def tlc_run(cfg, tag, sim=None, seed=1):
    extra = None
    workers = 8
    if sim:
        extra = ["-simulate", "num=%d" % sim, "-depth", "200", "-seed", str(seed)]
        workers = 1
    rc, out = common.tlc("MCSync.tla", cfg, tag, workers=workers, javaopts="-Xss1g", extra=extra, timeout=3000)
    return out


def run_concdrv(binary, cases, tag):
    outdir = os.path.join(common.WORK, "conc")
    os.makedirs(outdir, exist_ok=True)
    cpath = os.path.join(outdir, tag + ".cases.ndjson")
    tpath = os.path.join(outdir, tag + ".trace.ndjson")
    with open(cpath, "w") as f:
        for c in cases:
            f.write(json.dumps({k: v for k, v in c.items() if not k.startswith("pred_") and k != "replay_cfg"}, separators=(",", ":")) + "\n")
    start = 0
    lines = []
    guard = 0
    while start < len(cases):
        guard += 1
        if guard > len(cases) + 5:
            raise common.ToolError("concdrv restart loop")
        try:
            r = subprocess.run([binary, cpath, "--from", str(start)], stdout=subprocess.PIPE, stderr=subprocess.PIPE, text=True, timeout=900)
        except subprocess.TimeoutExpired:
            raise common.ToolError("concdrv timeout (scheduler hang) at case >= %d" % start)
        out = r.stdout.splitlines()
        if r.returncode == 0:
            lines += out
            break
        if r.returncode == 4 and out and out[-1].startswith('{"e":"restart"'):
            lines += out[:-1]
            start = json.loads(out[-1])["next"]
            continue
        # crash: everything printed belongs to completed cases
        lines += out
        last = start - 1
        for ln in out:
            if '"e":"case"' in ln:
                try:
                    last = json.loads(ln)["idx"]
                except Exception:
                    pass
        crashed = min(last + 1, len(cases) - 1)
        c = cases[crashed]
        msg = ("exit %d " % r.returncode) + (r.stderr.strip().splitlines()[-1] if r.stderr.strip() else "")
        lines.append(json.dumps({"t": -1, "e": "case", "name": c["case"], "idx": crashed, "kind": c["kind"], "props": c.get("props", [])}))
        lines.append(json.dumps({"t": -1, "e": "crash", "msg": msg.replace('"', "'")[:200]}))
        start = crashed + 1
    with open(tpath, "w") as f:
        for ln in lines:
            f.write(ln + "\n")
    return cpath, tpath, lines


def validate(tpath, tag):
    rc, out = common.tlc("ConcTrace.tla", "ConcTrace.cfg", "ctrace-" + tag, env={"TRACE": tpath}, workers=1, heap="6g")
    import re
    m = re.search(r'<<"VERDICT", "(.*)">>', out)
    if not m or "Model checking completed. No error has been found." not in out:
        raise common.ToolError("conc trace validation did not complete:\n" + out[-3000:])
    return json.loads(m.group(1).encode().decode("unicode_escape"))


def rand_scripts(rng, kind):
    if kind == "waker":
        wk = rng.choice([[1, 2], [1, 65], [1, 4097], [1, 2, 65], [2, 64, 4097]])
        nth = rng.choice([2, 2, 3])
        threads = []
        owners = {w: rng.randrange(nth) for w in wk}
        for t in range(nth):
            mine = [w for w in wk if owners[w] == t]
            ops = []
            for w in mine:
                for _ in range(rng.randrange(1, 3)):
                    ops.append(["wake", w])
                if rng.random() < 0.5:
                    ops.append(["drop", w])
            rng.shuffle(ops)
            # a drop must stay the last use of its waker
            for w in mine:
                if ["drop", w] in ops:
                    ops.remove(["drop", w])
                    ops.append(["drop", w])
            threads.append(ops)
        main = [["poll"] for _ in range(rng.randrange(0, 4))]
        hprog = {}
        if rng.random() < 0.35:
            # handlers that do things on the main thread, inside poll_wake; `m` is a waker no worker thread touches
            m = rng.choice([w for w in (3, 66, 5) if w not in wk])
            w = rng.choice(wk)
            c = rng.random()
            if c < 0.3:
                hprog[str(w)] = {"wake": [], "final": [["drop", m]]}
                wk = sorted(wk + [m])
            elif c < 0.5:
                hprog[str(w)] = {"wake": [["wake", m]], "final": []}
                wk = sorted(wk + [m])
            elif c < 0.75:
                hprog[str(m)] = {"wake": [["drop", m]], "final": []}
                wk = sorted(wk + [m])
                main = [["wake", m]] + main + [["poll"]]
            else:
                # re-entrant poll_wake from the handler of a waker that is woken exactly once and never dropped
                for ops in threads:
                    seen = False
                    for o in list(ops):
                        if o[1] == w:
                            if o[0] == "wake" and not seen:
                                seen = True
                            else:
                                ops.remove(o)
                hprog[str(w)] = {"wake": [["poll"]], "final": []}
        if rng.random() < 0.3:
            main += [["create"], ["poll"], ["wake", 1000], ["poll"], ["drop", 1000]]
        return {"kind": "waker", "wakers": wk, "threads": threads, "main": main, "hprog": hprog}
    if kind == "channel":
        if rng.random() < 0.03:
            # one sender queues hundreds of messages before the main thread collects (the scheduler is
            # told to run the sender first): collection has to take them all, whatever the batch size
            n = rng.choice([130, 200, 300])
            return {"kind": "channel", "wakers": [], "threads": [[["send", 1000 + i] for i in range(n)]],
                    "main": [["poll"], ["poll"]], "burst": True}
        nth = rng.choice([1, 2, 3])
        threads = [[["send", 10 * t + i] for i in range(1, rng.randrange(2, 4))] + ([["isclosed"]] if rng.random() < 0.3 else [])
                   for t in range(1, nth + 1)]
        main = [["poll"] for _ in range(rng.randrange(0, 3))]
        if rng.random() < 0.25:
            # the guard is dropped by another Waker's handler, inside poll_wake
            threads[rng.randrange(len(threads))].insert(rng.randrange(0, 2), ["wakectl"])
            return {"kind": "channel", "wakers": [], "threads": threads, "main": main, "ctl": True}
        if rng.random() < 0.3:
            # an unrelated plain Waker in the same leaf word as the channel's Waker
            threads.append([["wake", 8] for _ in range(rng.randrange(1, 4))])
            return {"kind": "channel", "wakers": [8], "threads": threads, "main": main}
        if rng.random() < 0.6:
            main.insert(rng.randrange(0, len(main) + 1), ["dropguard"])
        if rng.random() < 0.15:
            # the Fwd target drops the guard when it is handed its first message (main never drops it itself)
            return {"kind": "channel", "wakers": [], "threads": threads, "main": [m for m in main if m[0] != "dropguard"], "gdf": True}
        if rng.random() < 0.3:
            # the guard goes by unwinding: its owner panics (caught further up)
            return {"kind": "channel", "wakers": [], "threads": threads, "main": main, "gunwind": True}
        return {"kind": "channel", "wakers": [], "threads": threads, "main": main, "cecho": rng.random() < 0.2}
    if rng.random() < 0.12:
        # the worker sends a burst while the main thread keeps collecting: every message must arrive
        ops = [["send", 100 + i] for i in range(rng.randrange(4, 9))] + [["recv"]]
        return {"kind": "piped", "wakers": [], "threads": [ops], "main": [["poll"] for _ in range(rng.randrange(3, 7))] + [["psend", 1], ["poll"]],
                "autodrop": True}
    ops = []
    for _ in range(rng.randrange(1, 5)):
        ops.append(rng.choice([["recv"], ["recv"], ["send", rng.randrange(1, 9)], ["cancel"]]))
    # distinct send values
    k = 100
    for o in ops:
        if o[0] == "send":
            o[1] = k
            k += 1
    if rng.random() < 0.3:
        ops.insert(rng.randrange(0, len(ops) + 1), ["panic", "scripted: boom%d" % rng.randrange(9)])
        ops = ops[:ops.index([o for o in ops if o[0] == "panic"][0]) + 1]
    main = []
    v = 1
    for _ in range(rng.randrange(0, 5)):
        if rng.random() < 0.5:
            main.append(["psend", v])
            v += 1
        else:
            main.append(["poll"])
    if rng.random() < 0.6:
        main.append(["pdrop"])
        if rng.random() < 0.5:
            main.append(["poll"])
        elif rng.random() < 0.6:
            # the event loop keeps looking (without waiting) while the worker winds down
            main += [["trypoll"] for _ in range(rng.randrange(1, 4))]
    return {"kind": "piped", "wakers": [], "threads": [ops], "main": main, "autodrop": True,
            "echo": rng.random() < 0.2}


def observed_orderings(lines):
    setords, drainords = set(), set()
    for ln in lines:
        if '"k":"at"' not in ln:
            continue
        e = json.loads(ln)
        if e["op"] == "fetch_or":
            setords.add(e["ord"])
        else:
            drainords.add(e["ord"])

    def weakest(s, side):
        if not s:
            return "SeqCst"
        rel = all(o in ("SeqCst", "AcqRel", "Release") for o in s)
        acq = all(o in ("SeqCst", "AcqRel", "Acquire") for o in s)
        if rel and acq:
            return "SeqCst" if s == {"SeqCst"} else "AcqRel"
        if rel:
            return "Release"
        if acq:
            return "Acquire"
        return "Relaxed"
    return weakest(setords, "set"), weakest(drainords, "drain")


def run(prop, tier, seed, replay=None):
    binary = common.build_harness(bin_name="concdrv")
    viols = []
    states = trans = 0
    cases = []
    specs = []
    kind = {"C11": "waker", "C12": "waker", "C13": "channel", "C14": "piped"}[prop]
    if replay:
        d = json.load(open(replay))
        cases = [d["case"]]
    else:
        cfgs = list(CONFIGS[prop]["quick"]) + (CONFIGS[prop]["thorough"] if tier == "thorough" else [])
        nsim = 120 if tier == "quick" else 1500
        for (name, k, wb, sc, ms, hp) in map(_cfg5, cfgs):
            cfg = write_cfg(name, k, wb, sc, ms, "SeqCst", "SeqCst", False, hp)
            out = tlc_run(cfg, "sync-%s-%s" % (prop, name))
            st, tr = common.tlc_stats(out)
            states += st
            trans += tr
            specs.append("Sync/%s" % name)
            if "is violated" in out or "Error:" in out:
                p = os.path.join(common.REPLAYS, "%s-sync-%s.tlc.txt" % (prop, name))
                common.ensure_dirs()
                open(p, "w").write(out[-200000:])
                viols.append({"why": "design spec Sync (%s) violates ConcAbs / Published / NoDeadlock" % name, "replay": p, "sig": "tlc"})
                continue
            if "Model checking completed. No error has been found." not in out:
                raise common.ToolError("TLC did not complete on Sync/%s:\n%s" % (name, out[-3000:]))
            cfgx = write_cfg(name + "_x", k, wb, sc, ms, "SeqCst", "SeqCst", True, hp)
            out = tlc_run(cfgx, "syncsim-%s-%s" % (prop, name), sim=(nsim // 4 if name in ("w_two", "wrec2") else nsim), seed=seed)
            behs = syncexport.parse(out)
            for i, b in enumerate(behs):
                cases.append(syncexport.build_case(b, "%s-%d" % (name, i)))
            # the same scripts under random / PCT schedules: the schedule actually taken is afterwards
            # stepped through the design spec (SyncReplay) and its records compared (impl -> spec)
            if behs:
                rrng = random.Random(seed * 31 + len(cases))
                nrp = 60 if tier == "quick" else 600
                for i in range(nrp):
                    c = syncexport.build_case(behs[0], "rp-%s-%d" % (name, i))
                    c.pop("pred_lo"); c.pop("pred_hi")
                    c["schedule"] = []
                    c["seed"] = seed * 7000 + i
                    if i % 3 == 0:
                        c["fallback"] = "rand"
                    else:
                        c["fallback"] = "pct"
                        c["change"] = sorted(rrng.sample(range(1, 46), rrng.choice([1, 1, 2, 3])))
                    c["replay_cfg"] = (name, k, wb, sc, ms, hp)
                    cases.append(c)
        # random scripts under random schedules
        rng = random.Random(seed * 7919 + 13)
        nr = 900 if tier == "quick" else 12000
        for i in range(nr):
            c = rand_scripts(rng, kind)
            if i % 3 == 0:
                c.update({"case": "rand-%d-%d" % (seed, i), "schedule": [], "seed": seed * 100000 + i, "fallback": "rand"})
            else:
                # PCT: random thread priorities, 1-3 priority change points
                c.update({"case": "pct-%d-%d" % (seed, i), "schedule": [], "seed": seed * 100000 + i, "fallback": "pct",
                          "change": sorted(rng.sample(range(1, 46), rng.choice([1, 1, 2, 2, 3])))})
            if c.get("burst"):
                c.update({"schedule": [1] * 4000, "fallback": "rr"})
            elif rng.random() < 0.5:
                c["fine"] = True      # mutex releases are scheduling points as well

            if kind != "waker" and rng.random() < 0.15:
                c["fillers"] = 4095
            cases.append(c)
    for c in cases:
        c["props"] = [prop]
    tag = "%s-%s-%d" % (prop, tier, seed)
    cpath, tpath, lines = run_concdrv(binary, cases, tag)
    verdict = validate(tpath, tag)
    nv = 0
    for v in verdict["violations"]:
        if v["prop"] != prop:
            continue
        idx = None
        for i, ln in enumerate(lines[:v["line"]]):
            if '"e":"case"' in ln:
                idx = json.loads(ln)["idx"]
        case = {k: x for k, x in cases[idx].items() if not k.startswith("pred_")} if idx is not None else {}
        common.ensure_dirs()
        path = os.path.join(common.REPLAYS, "%s-s%d-%d.json" % (prop, seed, nv))
        json.dump({"property": prop, "why": v["why"], "case": case, "trace_excerpt": lines[max(0, v["line"] - 40):v["line"] + 1]}, open(path, "w"))
        viols.append({"why": v["why"], "replay": path, "sig": case.get("kind", "")})
        nv += 1
    # drift: predictions of the spec for its own schedules
    per, cur = {}, None
    for ln in lines:
        e = json.loads(ln)
        if e.get("e") == "case":
            cur = e["idx"]
            per[cur] = []
            continue
        if cur is not None:
            per[cur].append(e)
    drift = []
    for i, c in enumerate(cases):
        if "pred_lo" in c:
            d = syncexport.compare(c, per.get(i, []))
            if d:
                d["case"] = c["case"]
                drift.append(d)
    # impl -> design spec for the random / PCT schedules of the configured scripts
    groups = {}
    for i, c in enumerate(cases):
        if "replay_cfg" in c:
            groups.setdefault(c["replay_cfg"], []).append(i)
    replayed = 0
    for (name, k, wb, sc, ms, hp), idxs in groups.items():
        spath = os.path.join(common.WORK, "conc", "%s-%s.scheds.ndjson" % (tag, name))
        with open(spath, "w") as f:
            for i in idxs:
                taken = []
                for e in per.get(i, []):
                    if e.get("e") == "end" and "taken" in e:
                        taken = e["taken"]
                f.write(json.dumps({"name": cases[i]["case"], "taken": taken}) + "\n")
        cfg = write_cfg(name + "_rp", k, wb, sc, ms, "SeqCst", "SeqCst", False, hp).replace(".cfg", "")
        cpath2 = os.path.join(common.SPECS, cfg + ".cfg")
        txt = open(cpath2).read().replace("SPECIFICATION Spec", "SPECIFICATION RSpec")
        txt = "\n".join(l for l in txt.splitlines() if not l.startswith("INVARIANT") and not l.startswith("VIEW")) + "\n"
        open(cpath2, "w").write(txt)
        rc, out = common.tlc("SyncReplay.tla", cfg + ".cfg", "syncrp-%s-%s" % (prop, name), env={"SCHEDS": spath}, workers=1,
                             javaopts="-Xss1g -Dtlc2.tool.queue.IStateQueue=StateDeque", timeout=3000)
        import re as _re
        preds = {}
        for m in _re.finditer(r'<<"RCASE", "(.*)">>', out):
            d = json.loads(m.group(1).encode().decode("unicode_escape"))
            preds[d["name"]] = d
        for i in idxs:
            d = preds.get(cases[i]["case"])
            if d is None:
                drift.append({"case": cases[i]["case"], "stream": "replay", "at": 0, "spec": "no prediction (TLC)", "code": None})
                continue
            replayed += 1
            cc = dict(cases[i], pred_lo=syncexport._seq(d["lo"]), pred_hi=syncexport._seq(d["hi"]))
            dd = syncexport.compare(cc, per.get(i, []))
            if dd is None and not d["finished"]:
                dd = {"stream": "replay", "at": d["steps"], "spec": "schedule leaves the design spec (thread not enabled)", "code": None}
            if dd:
                dd["case"] = cases[i]["case"]
                drift.append(dd)
    # memory orderings actually passed by the code
    oset, odrain = observed_orderings(lines)
    ordering_checked = False
    if not replay and (oset != "SeqCst" or odrain != "SeqCst"):
        ordering_checked = True
        for (name, k, wb, sc, ms, hp) in map(_cfg5, CONFIGS[prop]["quick"][:2]):
            cfg = write_cfg(name + "_ord", k, wb, sc, ms, oset, odrain, False, hp)
            out = tlc_run(cfg, "syncord-%s-%s" % (prop, name))
            if "is violated" in out:
                p = os.path.join(common.REPLAYS, "%s-sync-%s-ord.tlc.txt" % (prop, name))
                open(p, "w").write("observed orderings: set=%s drain=%s\n" % (oset, odrain) + out[-200000:])
                if prop == "C11" or "Published" not in out:
                    viols.append({"why": "with the memory orderings the code passes (set=%s, drain=%s) the model violates %s" % (
                        oset, odrain, "Published" if "Published" in out else "an invariant"), "replay": p, "sig": "ordering"})
                break
    run_list = [{k: v for k, v in c.items() if not k.startswith("pred_") and k != "replay_cfg"} for c in cases]
    samples = [run_list[i] for i in range(0, len(run_list), max(1, len(run_list) // 3))][:3]
    ev_hist = {}
    for ln in lines:
        i = ln.find('"e":"')
        if i >= 0:
            k = ln[i + 5:ln.find('"', i + 5)]
            ev_hist[k] = ev_hist.get(k, 0) + 1
    lo_hist = {}
    for ln in lines:
        i = ln.find('"k":"')
        if i >= 0:
            k = ln[i + 5:ln.find('"', i + 5)]
            lo_hist[k] = lo_hist.get(k, 0) + 1
    coverage = {
        "event_histogram": dict(sorted(ev_hist.items())), "lowlevel_record_histogram": dict(sorted(lo_hist.items())),
        "states": states, "transitions": trans,
        "traces_validated_against_impl": len(cases),
        "samples": samples,
        "evaluations": len(cases),
        "distinct_nontrivial": len({json.dumps([c.get("threads"), c.get("main"), c.get("schedule"), c.get("seed")]) for c in run_list}),
        "rule": "cases = schedules exported by TLC from Sync.tla configs %s (one per simulated behaviour) + random scripts under seeded random schedules; distinct by (scripts, schedule, seed)" % specs,
        "trace_records": len(lines),
        "spec_generated_cases": sum(1 for c in cases if "pred_lo" in c),
        "schedules_replayed_through_spec": replayed,
        "drift_events": drift[:10], "drift_count": len(drift),
        "observed_orderings": {"set": oset, "drain": odrain, "model_rechecked": ordering_checked},
        "tlc_specs": specs,
        "exhaustive": False,
        "explanation": "TLC explored every interleaving of the configured thread scripts of Sync.tla checking the ConcAbs monitor, Published and NoDeadlock; exported schedules were replayed on the real code under the deterministic scheduler with every atomic/mutex/condvar step compared to the spec's prediction; recorded high-level traces were validated against ConcAbs by TLC",
    }
    return {"level": "model_checking", "coverage": coverage, "violations": viols, "assumptions": ASSUME,
            "summary": "%d TLC states, %d cases (%d schedules from TLC), %d records, %d drift, orderings %s/%s" % (
                states, len(cases), coverage["spec_generated_cases"], len(lines), len(drift), oset, odrain)}
