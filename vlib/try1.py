import sys; sys.path.insert(0,'/verif')
from vlib import gen, common
import json,time
seed=int(sys.argv[1]); plan=[(x.split(':')[0],int(x.split(':')[1])) for x in sys.argv[2:]]
cases = gen.gen_cases(seed, plan, ["C01"])
b = common.build_harness()
cp,tp = common.run_seqdrv(b, cases, common.WORK+"/t", "g%d"%seed)
n=sum(1 for _ in open(tp))
t0=time.time()
v = common.validate_seq_trace(tp, "g%d"%seed)
print("lines",n,"tlc %.1fs"%(time.time()-t0))
L=open(tp).read().splitlines()
for x in v["violations"]:
    print("==",x)
    ln=x["line"]
    for i in range(max(0,ln-8),min(len(L),ln+2)): print("   ",i+1,L[i])
