"""Convert behaviours exported by TLC from Core.tla (MCCore ExportInv) into
seqdrv cases, and compare the spec's predicted event stream with the trace
the real code produced (drift detection)."""
import json
import re


def parse_cases(tlc_out, tag="CASE"):
    out = []
    seen = set()
    for m in re.finditer(r'<<"%s", "(.*)">>' % tag, tlc_out):
        raw = m.group(1).encode().decode("unicode_escape")
        if raw in seen:
            continue
        seen.add(raw)
        out.append(json.loads(raw))
    return out


def _as_list(x):
    if isinstance(x, list):
        return x
    if isinstance(x, dict):
        # ToJson renders sequences/functions over 1..n as objects keyed by index in some cases
        return [x[k] for k in sorted(x, key=lambda z: int(z))]
    return []


def build_case(beh, name, shape_seed=0):
    script = beh["script"]
    rets = {}
    for h in _as_list(beh.get("hist", [])):
        rets[int(h[0])] = h[1]

    def item(iid, extra=None):
        it = {"id": iid, "shape": (iid * 7 + shape_seed) % 35, "ops": conv(_as_list(script.get(str(iid), [])))}
        if iid in rets:
            it["ret"] = rets[iid]
        if extra:
            it.update(extra)
        return it

    def conv(ops):
        res = []
        for o in ops:
            k = o["op"]
            if k in ("defer", "lazy", "idle") and o.get("via") != "actor":
                extra = None
                if o.get("od"):
                    extra = {"ondrop": [{"op": "defer", "via": "deferrer", "item": item(o["od"])}]}
                res.append({"op": k, "item": item(o["item"], extra)})
            elif k == "after":
                res.append({"op": "after", "tid": o["tid"], "d": [o["dd"], 0], "item": item(o["item"])})
            elif k == "run":
                res.append({"op": "run", "t": [o["t"], 0], "idle": o["idle"]})
            elif k == "acreate":
                res.append({"op": "acreate", "aid": o["aid"], "oid": o["oid"], "init": item(o["item"]),
                            "form": (o["aid"] + o["item"] + shape_seed) % 3, "slab": bool(o.get("slab", False))})
                if o.get("pnotify"):
                    res[-1]["pnotify"] = o["pnotify"]
            elif k == "call":
                holds = {}
                if o.get("ho"):
                    holds["owns"] = list(o["ho"])
                if o.get("hr"):
                    holds["rets"] = list(o["hr"])
                res.append({"op": "call", "aid": o["aid"], "prep": o["prep"],
                            "item": item(o["item"], {"holds": holds} if holds else None)})
            elif k == "defer" and o.get("via") == "actor":
                res.append({"op": "defer", "via": "actor", "aid": o["aid"], "item": item(o["item"])})
            elif k == "vdefer":
                res.append({"op": "vdefer", "item": item(o["item"])})
            elif k == "apply":
                if o["qb"] == "held":
                    # ran later, when the actor became Ready: its body is in the script
                    res.append({"op": "apply", "aid": o["aid"], "item": item(o["item"])})
                else:
                    body = []
                    if o["qb"] == "stop":
                        body = [{"op": "stop"}]
                    elif o["qb"] == "fail":
                        body = [{"op": "fail", "code": o["code"]}]
                    res.append({"op": "apply", "aid": o["aid"], "item": {"id": o["item"], "ops": body}})
            elif k == "query":
                body = []
                if o["qb"] == "stop":
                    body = [{"op": "stop"}]
                elif o["qb"] == "fail":
                    body = [{"op": "fail", "code": o["code"]}]
                res.append({"op": "query", "aid": o["aid"], "item": {"id": o["item"], "ops": body}})
            else:
                res.append(dict(o))
        return res

    return {"case": name, "props": [], "acyclic": False, "ops": conv(_as_list(script.get("0", []))),
            "pred": _as_list(beh.get("elog", []))}


# fields that the spec predicts for each event kind
KEYS = {
    "sub": ["q", "item"], "x": ["item", "now"], "xe": ["item"], "drop": ["item", "ran"],
    "run": ["t", "idle"], "runend": ["ret", "now"], "tadd": ["tid", "kind", "t", "item"],
    "acreate": ["aid", "oid", "logid"], "stop": ["aid"], "fail": ["aid", "code"], "kill": ["aid", "code"],
    "kille": ["aid"], "owndrop": ["oid", "aid"], "ownclone": ["oid", "oid2", "aid"], "vdrop": ["aid"],
    "notify": ["aid", "cause", "zombie"], "zombie": ["aid", "res"], "mkret": ["rid", "kind"],
    "ret": ["rid", "val"], "retdrop": ["rid"], "retcb": ["rid", "has", "val"],
    "rcall": ["rid", "aid", "has", "val"], "keepown": ["oid"], "keepret": ["rid"],
    "dropstakker": [], "droppedstakker": [], "setlogger": ["levels"], "dh": ["item"], "dhe": ["item"],
    "logrec": ["id", "level", "parent", "marker"],
    "tupd": ["tid", "kind", "t", "res"], "tdelb": ["tid"], "tdel": ["tid", "kind", "res"],
    "tact": ["tid", "kind", "res"], "nexp": ["has", "x"],
    "slablen": ["aid", "ready", "len", "iter", "empty", "zombies"], "slabdrop": ["aid"],
    "mkfwd": ["fid", "aid"], "fwd": ["fid", "val"], "fcall": ["fid", "aid", "val"],
    "apply": ["item", "aid"], "query": ["item", "aid"], "querye": ["item", "aid", "some"],
}


def project(e):
    k = e.get("e")
    if k not in KEYS:
        return None
    return [k] + [e.get(f) for f in KEYS[k]]


def compare(pred, actual_lines):
    """pred: spec's event list; actual_lines: harness events of the case (dicts).
    Returns None if they agree on the predicted prefix, else a description."""
    p = [x for x in (project(e) for e in pred) if x is not None]
    a = []
    for e in actual_lines:
        if e.get("e") == "endcase":
            break
        x = project(e)
        if x is not None:
            a.append(x)
    for i, x in enumerate(p):
        if i >= len(a):
            return {"at": i, "spec": x, "code": None}
        if json.dumps(x) != json.dumps(a[i]):
            return {"at": i, "spec": x, "code": a[i]}
    if len(a) > len(p):
        return {"at": len(p), "spec": None, "code": a[len(p)]}
    return None


def build_timer_case(hist, name):
    """hist: list of {op: {...}, evs: [...]} exported by MCTimers."""
    ops = []
    pred = []
    for h in _as_list(hist):
        o = h["op"]
        k = o["op"]
        if k == "tadd":
            ops.append({"op": "tadd", "tid": o["tid"], "kind": o["kind"], "t": list(o["t"]),
                        "item": {"id": o["item"], "ops": []}})
        elif k == "tupd":
            ops.append({"op": "tupd", "tid": o["tid"], "t": list(o["t"])})
            if o["tid"] < 0:
                ops[-1]["kind"] = o["kind"]
        elif k in ("tdel", "tact"):
            ops.append({"op": k, "tid": o["tid"]})
            if o["tid"] < 0:
                ops[-1]["kind"] = o["kind"]
        elif k == "run":
            ops.append({"op": "run", "t": list(o["t"]), "idle": False})
        ops.append({"op": "nexp"})
        pred += _as_list(h["evs"])
    return {"case": name, "props": [], "acyclic": True, "ops": ops, "pred": pred}
