import sys,json; sys.path.insert(0,'/verif')
from vlib import coreexport, common
behs = coreexport.parse_cases(open(sys.argv[1]).read())
print(len(behs))
cases=[coreexport.build_case(b,"core-%d"%i) for i,b in enumerate(behs)]
b = common.build_harness()
preds=[c.pop("pred") for c in cases]
cp,tp = common.run_seqdrv(b, cases, common.WORK+"/t", "core")
v = common.validate_seq_trace(tp,"core")
L=open(tp).read().splitlines()
print(v["lines"])
for x in v["violations"]:
    print("==",x)
    ln=x["line"]
    for i in range(max(0,ln-12),min(len(L),ln+2)): print("   ",i+1,L[i][:200])
cur=None; per={}
for ln in L:
    e=json.loads(ln)
    if e["e"]=="case": cur=e["idx"]; per[cur]=[]; continue
    if e["e"]=="new": continue
    per[cur].append(e)
nd=0
for i,p in enumerate(preds):
    r=coreexport.compare(p, per.get(i,[]))
    if r:
        nd+=1
        if nd<4: print(i, r, json.dumps(cases[i])[:900])
print("drift",nd,"of",len(preds))
