"""C18: cargo features never change observable behaviour.  The same corpus
(behaviours exported by TLC from Core.tla and Timers.tla + seeded random
programs) is executed on several feature builds of the real crate; every
build's trace must equal the reference build's trace event for event (first
divergence = violation), is validated against SeqAbs by TLC, and is compared
with the design specs' predictions."""
import json
import os
import time

from . import common, gen, mcspec, seqcheck

COMBOS_A = ["", "multi-thread", "multi-stakker,logger"]
COMBOS_B = ["", "no-unsafe-queue", "no-unsafe"]
COMBOS_C = ["", "inline-deferrer,inter-thread"]

# quick: builds that between them compile every alternative module
QUICK = [
    "inter-thread",                                   # reference (default configuration)
    "",                                               # no features at all: global deferrer, flat queue, packed rc, TCell, dummy waker
    "multi-thread,no-unsafe",                         # thread-local safe deferrer, boxed queue, std rc, TLCell
    "multi-stakker,logger,inline-deferrer,inter-thread",   # inline deferrer (unsafe), QCell, logger
    "no-unsafe,inline-deferrer,inter-thread",         # inline safe deferrer
    "multi-thread,no-unsafe-queue",                   # thread-local unsafe deferrer + boxed queue
    "multi-stakker,logger",                           # several Stakkers per thread with the Deferrer that cfg selects for it
    "multi-stakker,logger,no-unsafe",                 # the same on the safe variants (std rc with logger, safe cells / deferrer)
]


def all_combos():
    out = []
    for a in COMBOS_A:
        for b in COMBOS_B:
            for c in COMBOS_C:
                f = ",".join(x for x in (a, b, c) if x)
                out.append(f)
    return out


def norm(line):
    """Normalise a trace line for cross-build comparison."""
    if '"logid"' in line:
        d = json.loads(line)
        d["logid"] = 0
        return json.dumps(d, sort_keys=True)
    if line.startswith('{"e":"dupstakker"'):
        return '{"e":"dupstakker"}'      # whether a second Stakker is refused is what multi-stakker changes
    if line.startswith('{"e":"panic"'):
        d = json.loads(line)
        return json.dumps({"e": "panic", "during": d.get("during")})
    return line


def canon(lines):
    """After `droppedstakker` the harness releases its remaining handles; what
    is stranded in a Deferrer queue at that point (closures deferred after the
    Stakker was dropped: the documented exclusion) is released at a moment
    that depends on the Deferrer implementation.  That region is compared as
    a multiset."""
    out = []
    region = None
    for l in lines:
        if l.startswith('{"e":"boom"'):
            # a panic of user code caught outside run(): what the abandoned queues do with the closures
            # they still hold differs by implementation (the flat queue forgets them, the boxed one drops
            # them) and is not part of the feature-equivalence claim; compared up to the panic only
            out.append(l)
            break
        if region is not None:
            if l.startswith('{"e":"end"') or l.startswith('{"e":"renewed"'):
                # Not compared as a sequence: see above (with the inline Deferrer such closures can also
                # form a reference cycle and never be released, which the documentation allows).  What is
                # compared is, per actor, the order of its own release events (value drop vs notifier),
                # for the actors released in both builds.
                per = {}
                for x in region:
                    if '"aid"' in x and (x.startswith('{"e":"vdrop"') or x.startswith('{"e":"notify"')):
                        try:
                            d = json.loads(x)
                            per.setdefault(d["aid"], []).append(d["e"])
                        except Exception:
                            pass
                out.append("REGION " + json.dumps(per, sort_keys=True))
                out.append('{"e":"end"}' if l.startswith('{"e":"end"') else l)
                region = None
            else:
                region.append(l)
            continue
        out.append(l)
        if l.startswith('{"e":"droppedstakker"'):
            region = []
    if region:
        out += sorted(region)
    return out


def per_case_canon(tpath):
    """case index -> canonical event list of that case"""
    per, cur = {}, None
    for l in open(tpath).read().splitlines():
        if l.startswith('{"e":"case"'):
            try:
                cur = json.loads(l)["idx"]
            except Exception:
                cur = None
            per[cur] = []
            continue
        if l.startswith('{"e":"restart"') or cur is None:
            continue
        per[cur].append(norm(l))
    return {k: canon(v) for k, v in per.items() if k is not None}


def run(tier, seed, replay=None):
    prop = "C18"
    t0 = time.time()
    combos = QUICK if tier == "quick" else (["inter-thread"] + [c for c in all_combos() if c != "inter-thread"])
    # corpus
    if replay:
        d = json.load(open(replay))
        cases = [d["case"]]
        combos = [d.get("ref", "inter-thread"), d.get("features", "")]
        mc = {"states": 0, "transitions": 0, "specs": [], "violations": []}
    else:
        mc = {"states": 0, "transitions": 0, "cases": [], "specs": [], "violations": []}
        for r in (mcspec.run_core("q", prop, tier, seed), mcspec.run_core("a", prop, tier, seed), mcspec.run_timers(prop, tier, seed, cap=400 if tier == "quick" else 5000, kcap=150 if tier == "quick" else 5000)):
            for k in ("states", "transitions"):
                mc[k] += r[k]
            mc["cases"] += r["cases"]
            mc["specs"] += r["specs"]
            mc["violations"] += r["violations"]
        plan = [(f, q if tier == "quick" else t) for (f, q, t) in seqcheck.PLANS["C18"]]
        cases = list(mc["cases"]) + gen.gen_cases(seed, plan, [prop])
    for c in cases:
        c["props"] = [prop]
    run_list = [{k: v for k, v in c.items() if k != "pred"} for c in cases]
    viols = list(mc["violations"])
    ref_lines = None
    ref_name = None
    nev = 0
    drift_total = 0
    per_build = {}
    for combo in combos:
        feats = [f for f in combo.split(",") if f] + ["verif"]
        binary = common.build_harness(features=feats, tag="seqdrv-feat-" + (combo.replace(",", "_") or "none"))
        tag = "C18-%s-%d-%s" % (tier, seed, combo.replace(",", "_") or "none")
        # only the global Deferrer keeps strays until the next Stakker::new (the others free them with the last Deferrer)
        default_like = not any(f in combo for f in ("inline-deferrer", "multi-stakker", "multi-thread", "no-unsafe"))
        rl = run_list if default_like else [dict(c, noflushcheck=True) for c in run_list]
        cpath, tpath, verdict = seqcheck.run_cases(binary, rl, tag)
        # what multi-stakker changes is only how many Stakkers may coexist: a second one per thread is
        # refused exactly in the builds without it
        want_refused = "multi-stakker" not in combo
        wrong = None
        with open(tpath) as f:
            for ln in f:
                if ln.startswith('{"e":"dupstakker"') and (('"refused":true' in ln) != want_refused):
                    wrong = ln.strip()
                    break
        if wrong:
            path = os.path.join(common.REPLAYS, "C18-s%d-%d.json" % (seed, len(viols)))
            common.ensure_dirs()
            json.dump({"property": prop, "why": "second Stakker per thread: " + wrong, "features": combo, "ref": combos[0], "case": {}}, open(path, "w"))
            viols.append({"why": "[%s] a second Stakker on the thread was %s, contrary to what the multi-stakker feature says" % (
                combo, "refused" if not want_refused else "allowed"), "replay": path, "sig": combo})
        lines = per_case_canon(tpath)
        nev += sum(len(v) for v in lines.values())
        bad = [v for v in verdict["violations"] if v["prop"] == "HARNESS"]
        if bad:
            raise common.ToolError("harness-level failure on build [%s]: %s" % (combo, bad[0]["why"]))
        # any property violated on this build is a behaviour difference or a defect of that configuration
        for v in verdict["violations"]:
            if v["prop"] != prop:
                continue
            idx, name = common.case_of_line(tpath, v["line"])
            case = run_list[idx] if idx is not None and idx < len(run_list) else {}
            path = os.path.join(common.REPLAYS, "C18-s%d-%d.json" % (seed, len(viols)))
            common.ensure_dirs()
            json.dump({"property": prop, "why": v["why"], "features": combo, "ref": combos[0], "case": case}, open(path, "w"))
            viols.append({"why": "[%s] %s" % (combo, v["why"]), "replay": path, "sig": combo})
        drift = mcspec.compare_predictions(cases, tpath) if (not replay and "logger" not in combo) else []
        drift_total += len(drift)
        per_build[combo or "(none)"] = {"events": len(lines), "drift": len(drift)}
        if ref_lines is None:
            ref_lines, ref_name = lines, combo
            continue
        # first divergence from the reference build, case by case
        ndiv = 0
        for idx in sorted(set(lines) | set(ref_lines)):
            a, b = lines.get(idx, []), ref_lines.get(idx, [])
            n = min(len(a), len(b))
            div = None
            for i in range(n):
                if a[i] != b[i]:
                    if a[i].startswith("REGION ") and b[i].startswith("REGION "):
                        pa, pb = json.loads(a[i][7:]), json.loads(b[i][7:])
                        if all(pa[k] == pb[k] for k in pa if k in pb):
                            continue
                    div = i
                    break
            if div is None and len(a) != len(b):
                div = n
            if div is None:
                continue
            ndiv += 1
            if ndiv > 3:
                continue
            case = run_list[idx] if idx < len(run_list) else {}
            path = os.path.join(common.REPLAYS, "C18-s%d-%d.json" % (seed, len(viols)))
            common.ensure_dirs()
            json.dump({"property": prop, "why": "trace differs between feature builds", "features": combo, "ref": ref_name,
                       "case": case, "ref_line": b[div] if div < len(b) else None,
                       "line": a[div] if div < len(a) else None}, open(path, "w"))
            viols.append({"why": "observable event sequence of case %s under features [%s] differs from [%s]: %s vs %s" % (
                case.get("case"), combo, ref_name, (a[div] if div < len(a) else "<end>")[:120], (b[div] if div < len(b) else "<end>")[:120]),
                "replay": path, "sig": combo})
    samples = [run_list[i] for i in range(0, len(run_list), max(1, len(run_list) // 3))][:3]
    coverage = {
        "states": mc["states"], "transitions": mc["transitions"],
        "traces_validated_against_impl": len(cases) * len(combos),
        "samples": samples,
        "evaluations": len(cases) * len(combos),
        "distinct_nontrivial": len({json.dumps(c["ops"], sort_keys=True) for c in run_list if len(c.get("ops", [])) >= 2}),
        "rule": "corpus = behaviours exported by TLC from Core.tla / Timers.tla + seeded random programs; every case executed on each feature build; distinct by operation list; builds: %s" % combos,
        "builds": per_build, "trace_events_validated": nev, "drift_count": drift_total,
        "tlc_specs": mc["specs"], "exhaustive": False,
        "explanation": "each build's trace was validated against SeqAbs by TLC, compared event-for-event with the reference build and with the design specs' predictions",
    }
    return {"level": "model_checking", "coverage": coverage, "violations": viols, "assumptions": seqcheck.ASSUME + [
        "quick tier: 8 builds that between them compile every cfg-selected alternative module; thorough tier: all 18 supported combinations"],
        "summary": "%d builds x %d cases, %d events, %d drift" % (len(combos), len(cases), nev, drift_total)}
