#!/bin/sh
# usage: muttest.sh <patch> <prop> [tier]   -- apply patch to /repo, run check, revert
patch="$1"; prop="$2"; tier="${3:-quick}"
cd /repo || exit 2
git apply "$patch" || { echo "APPLY-FAILED $patch"; exit 2; }
cd /verif && ./check "$prop" "$tier" 2>&1 | grep -v "^built" | cut -c1-300 | head -8
rc=$?
git -C /repo checkout -- . 
exit $rc
