"""Known findings (/verif/known-findings.txt).  Read-only at run time.

Lines:
  fixed:   property=<id> <commit> <what failed>         (suppresses nothing)
  finding: property=<id> match=<regex> :: <description>  (suppresses only violations whose
           "why | signature" text matches the regex)
"""
import os
import re

PATH = os.path.join(os.path.dirname(os.path.dirname(os.path.abspath(__file__))), "known-findings.txt")


def load():
    out = []
    if not os.path.exists(PATH):
        return out
    for ln in open(PATH):
        ln = ln.strip()
        if not ln.startswith("finding:"):
            continue
        m = re.match(r"finding:\s+property=(\S+)\s+match=(.*?)\s+::\s+(.*)$", ln)
        if m:
            out.append({"prop": m.group(1), "re": re.compile(m.group(2)), "desc": m.group(3)})
    return out


def split(prop, violations):
    fs = [f for f in load() if f["prop"] == prop]
    known, new = [], []
    for v in violations:
        text = "%s | %s" % (v.get("why", ""), v.get("sig", ""))
        hit = [f for f in fs if f["re"].search(text)]
        if hit:
            known.append({"why": hit[0]["desc"]})
        else:
            new.append(v)
    # one KNOWN-FINDING line per listed finding
    seen, k2 = set(), []
    for k in known:
        if k["why"] not in seen:
            seen.add(k["why"])
            k2.append(k)
    return k2, new
