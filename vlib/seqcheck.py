"""Checks for the sequential properties (queues, timers, actors, Ret, log):
TLC model checking of the design specs, replay of TLC-generated behaviours on
the real code, and validation of recorded traces against the abstract spec."""
import json
import os
import time

from . import common, gen

# family plans: (family, quick count, thorough count)
PLANS = {
    "C01": [("q", 60, 600), ("qbig", 8, 80), ("qgrow", 40, 400), ("a", 20, 200), ("re", 40, 400), ("qdeep", 8, 60)],
    "C02": [("a", 120, 1500)],
    "C03": [("a", 120, 1500)],
    "C04": [("a", 120, 1500)],
    "C05": [("a", 120, 1500), ("q", 60, 600), ("t", 60, 600), ("re", 20, 200), ("park", 6, 30)],
    "C06": [("q", 100, 1200), ("qbig", 4, 40), ("qdeep", 6, 40)],
    "C07": [("t", 120, 1500), ("c19", 15, 150)],
    "C08": [("t", 120, 1500)],
    "C09": [("t", 120, 1500)],
    "C10": [("t", 120, 1500)],
    "C15": [("q", 60, 600), ("t", 40, 400), ("a", 20, 200)],
    "C16": [("q", 40, 400), ("qbig", 8, 80), ("qgrow", 30, 300), ("a", 60, 600), ("t", 30, 300), ("re", 30, 300), ("qdeep", 4, 30)],
    "C19": [("c19", 80, 1000), ("q", 30, 300), ("t", 30, 300)],
    "C20": [("alog", 120, 1500)],
    "C18": [("q", 25, 150), ("qbig", 3, 20), ("t", 25, 150), ("c19", 8, 50), ("a", 30, 200), ("re", 15, 100), ("park", 6, 30)],
}

FEATURES = {
    "C20": ["inter-thread", "logger"],
}

ASSUME = [
    "A1 small scope: exhaustive results hold within the object/operation budgets of the TLC configs; beyond them only simulation and recorded traces apply",
    "A2 fixed-timer sequence numbers and slot generations do not wrap (2^31 / 2^32 operations)",
    "trusted base: TLC, the SeqAbs monitor, the seqdrv interpreter, rustc; 64-bit target",
]


def case_sig(case):
    """Short signature of a case: multiset of op names at top level."""
    names = [o.get("op", "?") for o in case.get("ops", [])]
    return ",".join(sorted(set(names)))


def run_cases(binary, cases, tag):
    outdir = os.path.join(common.WORK, "seq")
    cpath, tpath = common.run_seqdrv(binary, cases, outdir, tag)
    verdict = common.validate_seq_trace(tpath, tag)
    return cpath, tpath, verdict


def save_replay(prop, seed, n, case, why, tpath, line):
    common.ensure_dirs()
    path = os.path.join(common.REPLAYS, "%s-s%d-%d.json" % (prop, seed, n))
    excerpt = []
    try:
        with open(tpath) as f:
            lines = f.read().splitlines()
        excerpt = lines[max(0, line - 25):line + 2]
    except Exception:
        pass
    with open(path, "w") as f:
        json.dump({"property": prop, "why": why, "case": case, "trace_excerpt": excerpt}, f)
    return path


def run(prop, tier, seed, replay=None):
    feats = FEATURES.get(prop)
    if prop == "C18":
        from . import featcheck
        return featcheck.run(tier, seed, replay)
    if prop == "C20" and tier == "thorough" and seed % 2 == 0:
        # every combination that includes `logger`: alternate with the most different one
        feats = ["multi-stakker", "logger", "no-unsafe", "inline-deferrer", "inter-thread"]
    binary = common.build_harness(features=feats)
    mc = {"states": 0, "transitions": 0, "cases": [], "drift": [], "specs": [], "violations": []}
    if replay:
        d = json.load(open(replay))
        cases = [d["case"]]
    else:
        from . import mcspec
        mc = mcspec.run_for(prop, tier, seed)
        plan = [(f, q if tier == "quick" else t) for (f, q, t) in PLANS[prop]]
        cases = list(mc["cases"]) + gen.gen_cases(seed, plan, [prop])
    for c in cases:
        c["props"] = [prop]
    t0 = time.time()
    run_list = [{k: v for k, v in c.items() if k != "pred"} for c in cases]
    cpath, tpath, verdict = run_cases(binary, run_list, "%s-%s-%d" % (prop, tier, seed))
    tval = time.time() - t0
    harness_bad = [v for v in verdict["violations"] if v["prop"] == "HARNESS"]
    if harness_bad:
        raise common.ToolError("harness-level failure: %s (trace %s line %d)" % (harness_bad[0]["why"], tpath, harness_bad[0]["line"]))
    viols = list(mc["violations"])
    for v in verdict["violations"]:
        if v["prop"] != prop:
            continue
        idx, name = common.case_of_line(tpath, v["line"])
        case = run_list[idx] if idx is not None and idx < len(run_list) else {}
        path = save_replay(prop, seed, len(viols), case, v["why"], tpath, v["line"])
        viols.append({"why": v["why"], "replay": path, "sig": case_sig(case), "case": name})
    second = None
    if prop == "C20" and not replay:
        # the logger also has to behave on the safe variants (std rc, safe cells / deferrer): the random
        # programs and a sample of the exported ones are run again on that build
        feats2 = ["multi-stakker", "logger", "no-unsafe", "inter-thread"]
        binary2 = common.build_harness(features=feats2, tag="seqdrv-c20-safe")
        nrand = len(cases) - len(mc["cases"])
        sub = run_list[len(mc["cases"]):] + run_list[:(600 if tier == "quick" else len(mc["cases"]))]
        cpath2, tpath2, verdict2 = run_cases(binary2, sub, "%s-%s-%d-safe" % (prop, tier, seed))
        for v in verdict2["violations"]:
            if v["prop"] == "HARNESS":
                raise common.ToolError("harness-level failure on the safe logger build: %s" % v["why"])
            if v["prop"] != prop:
                continue
            idx, name = common.case_of_line(tpath2, v["line"])
            case = sub[idx] if idx is not None and idx < len(sub) else {}
            path = save_replay(prop, seed, len(viols), case, v["why"], tpath2, v["line"])
            viols.append({"why": "[%s] %s" % (",".join(feats2), v["why"]), "replay": path, "sig": case_sig(case), "case": name})
        second = {"features": feats2, "cases": len(sub), "trace_events_validated": verdict2["lines"], "random_cases": nrand}
    # drift: D's predictions vs. the code (informational)
    drift = []
    if mc["cases"]:
        from . import mcspec
        drift = mcspec.compare_predictions(cases, tpath)
    dtv = None
    if prop in ("C07", "C08", "C09", "C10", "C19") and not replay:
        # impl -> design spec: every timer result / next_expiry / firing order against TimersOps
        dtv = common.validate_timers_design(tpath, "%s-%s-%d" % (prop, tier, seed))
    nev = verdict["lines"]
    # non-vacuity: how often each operation of the programs and each event kind of the trace occurred
    op_hist, ev_hist = {}, {}

    def _walk(ops):
        for o in ops:
            if not isinstance(o, dict):
                continue
            op_hist[o.get("op", "?")] = op_hist.get(o.get("op", "?"), 0) + 1
            for k in ("item", "init"):
                it = o.get(k)
                if isinstance(it, dict):
                    _walk(it.get("ops", []))
                    _walk(it.get("ondrop", []) or [])
    for c in run_list:
        _walk(c.get("ops", []))
    with open(tpath) as f:
        for ln in f:
            i = ln.find('"e":"')
            if i >= 0:
                k = ln[i + 5:ln.find('"', i + 5)]
                ev_hist[k] = ev_hist.get(k, 0) + 1
    samples = [run_list[i] for i in range(0, len(run_list), max(1, len(run_list) // 3))][:3]
    coverage = {
        "states": mc["states"],
        "transitions": mc["transitions"],
        "traces_validated_against_impl": len(cases),
        "samples": samples,
        "evaluations": len(cases),
        "distinct_nontrivial": len({json.dumps(c["ops"], sort_keys=True) for c in cases if len(c.get("ops", [])) >= 2}),
        "rule": "cases = behaviours exported by TLC from the design spec(s) %s (one per printed behaviour) + seeded random programs of the families %s; a case is non-trivial if it has >= 2 top-level operations; distinct by operation list" % (mc["specs"], [f for f, _, _ in PLANS[prop]]),
        "trace_events_validated": nev,
        "operation_histogram": dict(sorted(op_hist.items())),
        "event_histogram": dict(sorted(ev_hist.items())),
        "spec_generated_cases": len(mc["cases"]),
        "drift_events": drift[:20],
        "drift_count": len(drift) + (dtv["ndrift"] if dtv else 0),
        "design_trace_validation": dtv,
        "second_build": second,
        "tlc_specs": mc["specs"],
        "exhaustive": False,
        "explanation": "TLC explored the design spec(s) exhaustively within the config bounds checking the abstract monitor's verdict as an invariant; every exported behaviour and every random program was executed on the real code and the recorded trace validated line by line against SeqAbs by TLC (SeqTrace)",
    }
    extra_summary = ""
    if prop == "C16" and not replay:
        # the flat queue's memory discipline (FlatQueue.tla + observed-layout bounds check)
        from . import queuecheck
        q = queuecheck.run("C16", tier, seed)
        viols += q["violations"]
        coverage["states"] += q["coverage"]["states"]
        coverage["transitions"] += q["coverage"]["transitions"]
        coverage["traces_validated_against_impl"] += q["coverage"]["traces_validated_against_impl"]
        coverage["evaluations"] += q["coverage"]["evaluations"]
        coverage["distinct_nontrivial"] += q["coverage"]["distinct_nontrivial"]
        coverage["tlc_specs"] = coverage["tlc_specs"] + q["coverage"]["tlc_specs"]
        coverage["queue_part"] = {k: q["coverage"][k] for k in ("trace_records", "drift_count", "rule")}
        extra_summary = "; queue: " + q["summary"]
        if tier == "thorough":
            # execution substrate only: the same model-generated programs under AddressSanitizer
            asan = {"available": False, "reports": 0}
            ab = common.build_asan("seqdrv")
            if ab:
                asan["available"] = True
                for (idx, msg) in common.run_asan(ab, cpath, len(run_list)):
                    case = run_list[idx] if idx < len(run_list) else {}
                    path = save_replay(prop, seed, len(viols), case, msg, tpath, 0)
                    viols.append({"why": "AddressSanitizer: " + msg, "replay": path, "sig": "asan"})
                    asan["reports"] += 1
            coverage["asan"] = asan
    return {
        "level": "model_checking",
        "coverage": coverage,
        "violations": viols,
        "assumptions": ASSUME,
        "summary": "%d TLC states, %d cases (%d from TLC), %d trace events, %d drift, validate %.1fs%s" % (
            mc["states"], len(cases), len(mc["cases"]), nev, len(drift), tval, extra_summary),
    }
