#!/bin/sh
# Build the harness from files on disk only (offline).
set -e
cd "$(dirname "$0")"
mkdir -p work evidence
(cd harness && cargo build --offline 2>&1 | tail -3)
(cd specs && for m in SeqTrace MCCore MCTimers MCSync ConcTrace FlatTrace FlatQueue; do tla-sany $m.tla >/dev/null 2>&1 || echo "SANY failed on $m"; done)
