#!/bin/sh
# Build the harness from files on disk only (offline).
set -e
cd "$(dirname "$0")"
mkdir -p work evidence
(cd harness && cargo build --offline 2>&1 | tail -3)
